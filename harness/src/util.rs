//! Shared helpers: running programs/operators with panic containment and
//! turning results into comparable outcome records.

use crate::dag::Interner;
use crate::engine::guard;
use clvmr::allocator::{Allocator, NodePtr};
use clvmr::chia_dialect::{ChiaDialect, ClvmFlags};
use clvmr::dialect::Dialect;
use clvmr::error::EvalErr;
use clvmr::reduction::Response;
use clvmr::run_program::run_program;
use std::collections::HashMap;

pub const ALL_FLAGS: [(&str, u32); 13] = [
    ("CANONICAL_INTS", 0x0001),
    ("NO_UNKNOWN_OPS", 0x0002),
    ("LIMIT_HEAP", 0x0004),
    ("RELAXED_BLS", 0x0008),
    ("LIMIT_SOFTFORK", 0x0010),
    ("ENABLE_GC", 0x0020),
    ("LIMITS", 0x0040),
    ("ENABLE_KECCAK_OPS_OUTSIDE_GUARD", 0x0100),
    ("DISABLE_OP", 0x0200),
    ("ENABLE_SHA256_TREE", 0x0400),
    ("ENABLE_SECP_OPS", 0x0800),
    ("MALACHITE", 0x1000),
    ("NEW_COST_MODEL", 0x2000),
];

pub const F_CANONICAL_INTS: u32 = 0x0001;
pub const F_NO_UNKNOWN_OPS: u32 = 0x0002;
pub const F_LIMIT_HEAP: u32 = 0x0004;
pub const F_RELAXED_BLS: u32 = 0x0008;
pub const F_LIMIT_SOFTFORK: u32 = 0x0010;
pub const F_ENABLE_GC: u32 = 0x0020;
pub const F_LIMITS: u32 = 0x0040;
pub const F_KECCAK: u32 = 0x0100;
pub const F_DISABLE_OP: u32 = 0x0200;
pub const F_SHA256_TREE: u32 = 0x0400;
pub const F_SECP: u32 = 0x0800;
pub const F_MALACHITE: u32 = 0x1000;
pub const F_NEW_COST: u32 = 0x2000;
pub const F_MEMPOOL: u32 =
    F_NO_UNKNOWN_OPS | F_LIMIT_HEAP | F_DISABLE_OP | F_CANONICAL_INTS | F_LIMIT_SOFTFORK;
pub const F_ALL: u32 = 0x3f7f;

pub fn flags(bits: u32) -> ClvmFlags {
    ClvmFlags::from_bits_truncate(bits)
}

pub fn flag_names(bits: u32) -> String {
    let v: Vec<&str> = ALL_FLAGS
        .iter()
        .filter(|(_, b)| bits & b != 0)
        .map(|(n, _)| *n)
        .collect();
    if v.is_empty() {
        "0".to_string()
    } else {
        v.join("|")
    }
}

/// the variant name of an error ("CostExceeded", "InvalidOpArg", ...)
pub fn err_kind(e: &EvalErr) -> String {
    let d = format!("{e:?}");
    d.split(['(', ' ', '{']).next().unwrap_or("").to_string()
}

/// A comparable record of one execution.
#[derive(Clone, Debug, PartialEq, Eq)]
pub enum Out {
    Ok { cost: u64, val: u32 },
    Err { kind: String, msg: String },
    Panic(String),
}

impl Out {
    pub fn is_ok(&self) -> bool {
        matches!(self, Out::Ok { .. })
    }
    pub fn kind(&self) -> &str {
        match self {
            Out::Ok { .. } => "Ok",
            Out::Err { kind, .. } => kind,
            Out::Panic(_) => "PANIC",
        }
    }
    pub fn show(&self, i: &Interner) -> String {
        match self {
            Out::Ok { cost, val } => format!("Ok(cost={cost}, value={})", i.to_hex(*val, 200)),
            Out::Err { kind, msg } => format!("Err({kind}: {msg})"),
            Out::Panic(m) => format!("PANIC({m})"),
        }
    }
}

pub fn to_out(a: &Allocator, i: &mut Interner, r: Result<Response, String>) -> Out {
    match r {
        Ok(Ok(red)) => Out::Ok {
            cost: red.0,
            val: i.node(a, red.1),
        },
        Ok(Err(e)) => Out::Err {
            kind: err_kind(&e),
            msg: e.to_string(),
        },
        Err(p) => Out::Panic(p),
    }
}

pub fn to_out_memo(
    a: &Allocator,
    i: &mut Interner,
    memo: &mut HashMap<NodePtr, u32>,
    r: Result<Response, String>,
) -> Out {
    match r {
        Ok(Ok(red)) => Out::Ok {
            cost: red.0,
            val: i.node_memo(a, red.1, memo),
        },
        Ok(Err(e)) => Out::Err {
            kind: err_kind(&e),
            msg: e.to_string(),
        },
        Err(p) => Out::Panic(p),
    }
}

/// run_program with panic containment
pub fn run<D: Dialect>(
    a: &mut Allocator,
    d: &D,
    prog: NodePtr,
    env: NodePtr,
    max_cost: u64,
) -> Result<Response, String> {
    guard(|| run_program(a, d, prog, env, max_cost))
}

pub fn run_chia(
    a: &mut Allocator,
    bits: u32,
    prog: NodePtr,
    env: NodePtr,
    max_cost: u64,
) -> Result<Response, String> {
    let d = ChiaDialect::new(flags(bits));
    run(a, &d, prog, env, max_cost)
}

/// (atom_count, pair_count, heap_size)
pub fn counts(a: &Allocator) -> (usize, usize, usize) {
    (a.atom_count(), a.pair_count(), a.heap_size())
}

pub fn hexs(b: &[u8]) -> String {
    if b.len() > 80 {
        format!("{}…({} bytes)", hex::encode(&b[..80]), b.len())
    } else {
        hex::encode(b)
    }
}

pub mod hexbytes {
    use serde::{Deserialize, Deserializer, Serializer};
    pub fn serialize<S: Serializer>(b: &Vec<u8>, s: S) -> Result<S::Ok, S::Error> {
        s.serialize_str(&hex::encode(b))
    }
    pub fn deserialize<'de, D: Deserializer<'de>>(d: D) -> Result<Vec<u8>, D::Error> {
        let s = String::deserialize(d)?;
        hex::decode(s).map_err(serde::de::Error::custom)
    }
}

pub mod hexvec {
    use serde::{Deserialize, Deserializer, Serializer, ser::SerializeSeq};
    pub fn serialize<S: Serializer>(b: &Vec<Vec<u8>>, s: S) -> Result<S::Ok, S::Error> {
        let mut seq = s.serialize_seq(Some(b.len()))?;
        for x in b {
            seq.serialize_element(&hex::encode(x))?;
        }
        seq.end()
    }
    pub fn deserialize<'de, D: Deserializer<'de>>(d: D) -> Result<Vec<Vec<u8>>, D::Error> {
        let v = Vec::<String>::deserialize(d)?;
        v.into_iter()
            .map(|s| hex::decode(s).map_err(serde::de::Error::custom))
            .collect()
    }
}
