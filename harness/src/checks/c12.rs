//! C12 — allocator resource accounting is representation-independent.

use crate::checks::alloc_sm::{Cfg, gen_case, run_case};
use crate::engine::{Runner, Verdict};
use crate::tape::Tape;

pub fn run(r: &mut Runner) {
    r.rule = "histories of <= 60 public allocator calls (new_atom, new_small_number, new_u64/i64/number/malachite_number, new_pair, new_substr with valid and invalid bounds, new_concat of 0/1/n parts incl. wrong size, new_g1/g2, ghost counters, full/transparent checkpoints and restores in stack discipline, maybe_restore_with_node); counts compared with the reference accounting after every call. \
        Non-trivial = history contains a full restore and a transparent or value-preserving restore after allocations beyond the checkpoint, and an inline-atom, a substring and a concat call; distinct by history."
        .into();
    r.assumptions = vec!["only live nodes are referenced and checkpoints are restored backwards in time (the allocator asserts this)".into()];
    let n = r.n(100_000, 3_000_000);
    r.run_part(
        "histories",
        n,
        400,
        |t: &mut Tape| gen_case(t, false),
        |c| match run_case(c, &Cfg { contents: false, counters: true }) {
            Ok(o) => {
                let nt = o.full_restore_after_alloc && (o.transparent_restore_after_alloc || o.value_restore) && o.inline_atom && o.substr && o.concat;
                let mut v = Verdict::pass(nt).with_labels({
                    let mut l = o.labels.clone();
                    l.sort();
                    l.dedup();
                    l
                });
                if o.value_restore {
                    v = v.label("value-preserving restore");
                }
                v
            }
            Err(v) => v,
        },
    );
    r.require_label("value-preserving restore", 200);
    r.require_label("maybe_restore:replace", 50);
}
