//! C19 — incremental serializer histories produce valid serializations.

use crate::dag::{Dag, Interner, build_all};
use crate::engine::{Runner, Verdict, guard};
use crate::r#gen::trees::{TreeCfg, gen_tree};
use crate::model::refserde::decode_backrefs;
use crate::tape::Tape;
use crate::util::hexs;
use clvmr::allocator::{Allocator, NodePtr};
use clvmr::serde::{Serializer, UndoState, node_from_bytes_backrefs};
use serde::{Deserialize, Serialize};

/// a stage: a small tree over references into the shared pool and sentinel holes
#[derive(Serialize, Deserialize, Clone, Debug, PartialEq)]
pub enum St {
    /// sentinel (a hole filled by the next add)
    S,
    /// pool node (same NodePtr every time)
    R(u32),
    /// a freshly allocated value-equal copy of a pool node
    C(u32),
    P(Box<St>, Box<St>),
}

#[derive(Serialize, Deserialize, Clone, Debug, PartialEq)]
pub enum Op {
    Add(u32),
    /// restore to the k-th retained undo state (scaled onto the retained list)
    Restore(u16),
}

#[derive(Serialize, Deserialize, Clone, Debug)]
pub struct Case {
    pub pool: Dag,
    pub stages: Vec<St>,
    pub ops: Vec<Op>,
    pub salt_a: u64,
    pub salt_b: u64,
}

fn holes(s: &St) -> usize {
    match s {
        St::S => 1,
        St::R(_) | St::C(_) => 0,
        St::P(l, r) => holes(l) + holes(r),
    }
}

fn build_stage(a: &mut Allocator, s: &St, pool: &[NodePtr], pool_dag: &Dag, sentinel: NodePtr) -> NodePtr {
    match s {
        St::S => sentinel,
        St::R(i) => pool[*i as usize % pool.len()],
        St::C(i) => {
            // fresh copy of the sub-dag rooted at pool node i
            let idx = *i as usize % pool.len();
            let sub = Dag { n: pool_dag.n[..=idx].to_vec() };
            *build_all(a, &sub.all_nat()).expect("copy").last().unwrap()
        }
        St::P(l, r) => {
            let l = build_stage(a, l, pool, pool_dag, sentinel);
            let r = build_stage(a, r, pool, pool_dag, sentinel);
            a.new_pair(l, r).expect("pair")
        }
    }
}

/// model assembly: holes are filled in pre-order by the following stages
fn assemble(i: &mut Interner, stages: &[&St], pool_ids: &[u32]) -> Option<u32> {
    fn expand(i: &mut Interner, s: &St, rest: &mut std::slice::Iter<&St>, pool_ids: &[u32]) -> Option<u32> {
        match s {
            St::S => {
                let next = rest.next()?;
                expand(i, next, rest, pool_ids)
            }
            St::R(k) | St::C(k) => Some(pool_ids[*k as usize % pool_ids.len()]),
            St::P(l, r) => {
                let l = expand(i, l, rest, pool_ids)?;
                let r = expand(i, r, rest, pool_ids)?;
                Some(i.pair(l, r))
            }
        }
    }
    let mut it = stages.iter();
    let first = it.next()?;
    let id = expand(i, first, &mut it, pool_ids)?;
    if it.next().is_some() {
        return None;
    }
    Some(id)
}

fn shares_subtree(i: &mut Interner, a: &St, b: &St, pool_ids: &[u32], pool_len: &dyn Fn(u32) -> u64) -> bool {
    // collect pool references of serialized length >= 4 from both; sharing = common value id
    fn refs(s: &St, out: &mut Vec<u32>) {
        match s {
            St::R(k) | St::C(k) => out.push(*k),
            St::P(l, r) => {
                refs(l, out);
                refs(r, out);
            }
            St::S => {}
        }
    }
    let _ = i;
    let (mut ra, mut rb) = (Vec::new(), Vec::new());
    refs(a, &mut ra);
    refs(b, &mut rb);
    ra.iter().any(|x| {
        let idx = *x as usize % pool_ids.len();
        pool_len(idx as u32) >= 4 && rb.iter().any(|y| pool_ids[*y as usize % pool_ids.len()] == pool_ids[idx])
    })
}

pub fn test_case(c: &Case) -> Verdict {
    if !c.pool.is_valid() || c.stages.is_empty() {
        return Verdict::discard();
    }
    let mut interner = Interner::new();
    let pool_ids = interner.dag_all(&c.pool);
    // serialized lengths of pool nodes (classic, saturating)
    let mut lens: Vec<u64> = Vec::new();
    for n in &c.pool.n {
        lens.push(match n {
            crate::dag::N::A(b, _) => crate::model::refserde::atom_ser_len(b),
            crate::dag::N::P(l, r) => 1u64.saturating_add(lens[*l as usize]).saturating_add(lens[*r as usize]),
        });
    }
    let res = guard(|| -> Result<(bool, Vec<String>), String> {
        let mut a = Allocator::new();
        let pool = build_all(&mut a, &c.pool).map_err(|e| format!("build: {e}"))?;
        let sentinel = a.new_pair(NodePtr::NIL, NodePtr::NIL).map_err(|e| e.to_string())?;
        let stage_nodes: Vec<NodePtr> = c.stages.iter().map(|s| build_stage(&mut a, s, &pool, &c.pool, sentinel)).collect();
        let mk = |k: usize| match k {
            0 => Serializer::new_with_salt(Some(sentinel), c.salt_a.to_le_bytes(), c.salt_a.rotate_left(17)),
            1 => Serializer::new_with_salt(Some(sentinel), c.salt_b.to_le_bytes(), c.salt_b.rotate_left(29) ^ 0x5555),
            _ => Serializer::new(Some(sentinel)),
        };
        let mut sers: Vec<Serializer> = (0..4).map(mk).collect();
        // retained: (stage index, snapshot of bytes before the add, undo states per serializer)
        let mut retained: Vec<(usize, Vec<u8>, Vec<UndoState>)> = Vec::new();
        let mut pending: usize = 1;
        let mut labels: Vec<String> = Vec::new();
        let mut undone: Vec<usize> = Vec::new(); // stage indices undone so far
        let mut interesting = false;
        for op in &c.ops {
            match op {
                Op::Add(si) => {
                    if pending == 0 {
                        continue; // complete: add() may not be called again
                    }
                    let si = *si as usize % c.stages.len();
                    let snapshot = sers[0].get_ref().clone();
                    let mut undos = Vec::new();
                    let mut dones = Vec::new();
                    for s in sers.iter_mut() {
                        let (done, u) = s.add(&a, stage_nodes[si]).map_err(|e| format!("add: {e}"))?;
                        undos.push(u);
                        dones.push(done);
                    }
                    pending = pending - 1 + holes(&c.stages[si]);
                    let model_done = pending == 0;
                    if dones.iter().any(|d| *d != model_done) {
                        return Err(format!("add(stage {si}) returned done={dones:?}; the assembled tree is {}complete", if model_done { "" } else { "in" }));
                    }
                    // different addition after an undo, sharing a sub-tree with an undone stage
                    if !undone.is_empty() {
                        let pl = |k: u32| lens[k as usize];
                        for u in &undone {
                            if c.stages[*u] != c.stages[si] && shares_subtree(&mut interner, &c.stages[*u], &c.stages[si], &pool_ids, &pl) {
                                interesting = true;
                            }
                        }
                    }
                    retained.push((si, snapshot, undos));
                    let b0 = sers[0].get_ref().clone();
                    for (k, s) in sers.iter().enumerate() {
                        if *s.get_ref() != b0 {
                            return Err(format!(
                                "bytes depend on the hashing salt after add(stage {si}): serializer 0 has {}, serializer {k} has {}",
                                hexs(&b0),
                                hexs(s.get_ref())
                            ));
                        }
                        if s.size() != b0.len() as u64 {
                            return Err(format!("size() = {} but get_ref() has {} bytes", s.size(), b0.len()));
                        }
                    }
                    if model_done {
                        labels.push("completed".into());
                        let stages: Vec<&St> = retained.iter().map(|r| &c.stages[r.0]).collect();
                        let want = assemble(&mut interner, &stages, &pool_ids).ok_or("model: assembly incomplete")?;
                        let mut a2 = Allocator::new();
                        let ret_list: Vec<usize> = retained.iter().map(|r| r.0).collect();
                        let back = node_from_bytes_backrefs(&mut a2, &b0).map_err(|e| {
                            format!(
                                "completed serialization {} does not decode: {e}; expected tree {}\n undone additions so far: {undone:?}\n retained additions at this point: {ret_list:?}",
                                hexs(&b0),
                                interner.to_hex(want, 300)
                            )
                        })?;
                        let got = interner.node(&a2, back);
                        if got != want {
                            return Err(format!(
                                "completed serialization decodes to the wrong tree:\n bytes    {}\n decoded  {}\n expected {}\n undone additions so far: {undone:?}\n retained additions at this point: {ret_list:?}",
                                hexs(&b0),
                                interner.to_hex(got, 400),
                                interner.to_hex(want, 400)
                            ));
                        }
                        match decode_backrefs(&b0) {
                            Ok(dec) => {
                                if dec.consumed != b0.len() || interner.dag(&dec.dag) != want {
                                    return Err(format!("reference decoder disagrees on {}", hexs(&b0)));
                                }
                            }
                            Err(e) => return Err(format!("reference decoder rejects {}: {e:?}", hexs(&b0))),
                        }
                    }
                }
                Op::Restore(k) => {
                    if retained.is_empty() {
                        continue;
                    }
                    let k = (*k as usize * retained.len()) >> 16;
                    let (_, snapshot, undos) = retained[k].clone();
                    for (s, u) in sers.iter_mut().zip(undos) {
                        s.restore(u);
                    }
                    for r in &retained[k..] {
                        undone.push(r.0);
                    }
                    retained.truncate(k);
                    // recompute pending holes from the retained stages
                    pending = 1;
                    for r in &retained {
                        pending = pending - 1 + holes(&c.stages[r.0]);
                    }
                    labels.push("undo".into());
                    for (n, s) in sers.iter().enumerate() {
                        if *s.get_ref() != snapshot || s.size() != snapshot.len() as u64 {
                            return Err(format!(
                                "undo did not restore the bytes (serializer {n}): have {} (size() {}), held {} before the undone call",
                                hexs(s.get_ref()),
                                s.size(),
                                hexs(&snapshot)
                            ));
                        }
                    }
                }
            }
        }
        labels.sort();
        labels.dedup();
        let completed = labels.iter().any(|l| l == "completed");
        Ok((interesting && completed, labels))
    });
    match res {
        Ok(Ok((nt, labels))) => Verdict::pass(nt).with_labels(labels).label(if nt { "undo+different add sharing sub-tree, completed" } else { "other" }),
        Ok(Err(m)) => {
            let wrong_tree = m.contains("decodes to the wrong tree") || m.contains("does not decode");
            if !wrong_tree {
                return Verdict::fail(m);
            }
            // Attribute the failure (oracle side): serialize exactly the
            // additions retained at the failing completion on a fresh
            // serializer, without any undone call.
            let retained: Vec<usize> = m
                .rsplit_once("retained additions at this point: [")
                .map(|(_, t)| t.trim_end_matches(']').split(", ").filter_map(|x| x.trim().parse().ok()).collect())
                .unwrap_or_default();
            let undone: Vec<usize> = m
                .rsplit_once("undone additions so far: [")
                .and_then(|(_, t)| t.split_once(']'))
                .map(|(l, _)| l.split(", ").filter_map(|x| x.trim().parse().ok()).collect())
                .unwrap_or_default();
            match fresh_serialization_ok(c, &retained) {
                Some(true) => {
                    // Known finding F3 needs more than "an undo happened": the parent links created by an undone
                    // addition stay in the cache, and one of them is only followed when the value it hangs on is
                    // serialized again (or was serialized before) and then occurs once more. So some sub-tree value of
                    // an undone addition must occur at least twice in the finally assembled tree, or an undone addition
                    // contained the sentinel itself (its parents are handed to the next fill). Any other wrong result after an undo is reported as a new violation.
                    let stages: Vec<&St> = retained.iter().map(|r| &c.stages[*r]).collect();
                    let want = assemble(&mut interner, &stages, &pool_ids);
                    let mut f3 = false;
                    if let Some(want) = want {
                        for u in &undone {
                            let st = &c.stages[*u];
                            // every hole-free sub-tree value of the undone addition (its parent links are what stays behind)
                            let mut vals: Vec<u32> = Vec::new();
                            collect_values(&mut interner, st, &pool_ids, &mut vals);
                            if vals.iter().any(|v| occurrences(&interner, want, *v) >= 2) {
                                f3 = true;
                            }
                            // an undone addition that itself contained the sentinel leaves the sentinel's parent list
                            // pointing into the undone structure. Over the explored histories the unchanged tree only
                            // goes wrong through that route when the history is more than one simple undo: the undone
                            // stage node is added again, or two or more additions were undone (in one or several
                            // restores), or the bare sentinel was added as a stage and undone. A single undone
                            // sentinel-containing addition followed by different additions serializes correctly on the
                            // unchanged tree, so a wrong result there is not attributed to the finding.
                            let restores = c.ops.iter().filter(|o| matches!(o, Op::Restore(_))).count();
                            if holes(st) > 0
                                && (retained.contains(u) || restores >= 2 || undone.len() >= 2 || undone.iter().any(|x| c.stages[*x] == St::S))
                            {
                                f3 = true;
                            }
                        }
                    }
                    // restore() also leaves the sentinel's own parent list drained; that interacts with the two other
                    // known mechanisms (a stage with several holes, a hole-containing stage added more than once), so
                    // histories containing either are attributed to the known finding as well
                    let all: Vec<usize> = retained.iter().chain(undone.iter()).copied().collect();
                    if all.iter().any(|s| holes(&c.stages[*s]) >= 2) {
                        f3 = true;
                    }
                    for (k, s) in retained.iter().enumerate() {
                        if holes(&c.stages[*s]) > 0 && c.stages[*s] != St::S && retained[..k].contains(s) {
                            f3 = true;
                        }
                    }
                    let note = "(the same retained additions on a fresh serializer, without the undone calls, serialize correctly)";
                    if f3 {
                        Verdict::fail_sig(format!("{m}\n {note}"), "undo-leaves-stale-parent-links")
                    } else {
                        Verdict::fail(format!("{m}\n {note}; no sub-tree value of an undone addition occurs twice in the assembled tree, so this is not the known stale-parent-link finding"))
                    }
                }
                Some(false) => {
                    let multi = retained.iter().any(|s| holes(&c.stages[*s]) >= 2);
                    let reused = retained
                        .iter()
                        .enumerate()
                        .any(|(i, s)| holes(&c.stages[*s]) > 0 && c.stages[*s] != St::S && retained[..i].contains(s));
                    if multi {
                        Verdict::fail_sig(
                            format!("{m}\n (fails without any undo; a stage has two or more sentinel holes)"),
                            "multi-hole-stage-misattributed-parent",
                        )
                    } else if reused {
                        Verdict::fail_sig(
                            format!("{m}\n (fails without any undo; the same sentinel-containing stage node is added more than once)"),
                            "sentinel-stage-added-twice-shares-cache-entry",
                        )
                    } else {
                        Verdict::fail(format!("{m}\n (fails without any undo, single-hole stages, no stage with a hole re-added)"))
                    }
                }
                None => Verdict::fail(m),
            }
        }
        Err(p) => Verdict::fail(format!("panic: {p}")),
    }
}

/// interned ids of every hole-free sub-tree of a stage (pool references expanded with all their sub-trees)
fn collect_values(i: &mut Interner, s: &St, pool_ids: &[u32], out: &mut Vec<u32>) -> Option<u32> {
    match s {
        St::S => None,
        St::R(k) | St::C(k) => {
            let id = pool_ids[*k as usize % pool_ids.len()];
            // all sub-trees of the pool value
            let mut st = vec![id];
            while let Some(n) = st.pop() {
                if out.contains(&n) {
                    continue;
                }
                out.push(n);
                if let crate::dag::INode::P(l, r) = &i.nodes[n as usize] {
                    st.push(*l);
                    st.push(*r);
                }
            }
            Some(id)
        }
        St::P(l, r) => {
            let a = collect_values(i, l, pool_ids, out);
            let b = collect_values(i, r, pool_ids, out);
            match (a, b) {
                (Some(a), Some(b)) => {
                    let id = i.pair(a, b);
                    out.push(id);
                    Some(id)
                }
                _ => None,
            }
        }
    }
}

/// number of occurrences of value `v` as a sub-tree of `root` in the expanded tree (saturating)
fn occurrences(i: &Interner, root: u32, v: u32) -> u64 {
    let mut memo: std::collections::HashMap<u32, u64> = std::collections::HashMap::new();
    let mut st = vec![(root, false)];
    while let Some((n, ready)) = st.pop() {
        if memo.contains_key(&n) {
            continue;
        }
        match &i.nodes[n as usize] {
            crate::dag::INode::A(_) => {
                memo.insert(n, (n == v) as u64);
            }
            crate::dag::INode::P(l, r) => {
                if ready {
                    let c = memo[l].saturating_add(memo[r]).saturating_add((n == v) as u64);
                    memo.insert(n, c);
                } else {
                    st.push((n, true));
                    st.push((*l, false));
                    st.push((*r, false));
                }
            }
        }
    }
    memo[&root]
}

fn fresh_serialization_ok(c: &Case, retained: &[usize]) -> Option<bool> {
    guard(|| {
        let mut interner = Interner::new();
        let pool_ids = interner.dag_all(&c.pool);
        let mut a = Allocator::new();
        let pool = build_all(&mut a, &c.pool).ok()?;
        let sentinel = a.new_pair(NodePtr::NIL, NodePtr::NIL).ok()?;
        let stage_nodes: Vec<NodePtr> = c.stages.iter().map(|s| build_stage(&mut a, s, &pool, &c.pool, sentinel)).collect();
        let mut ser = Serializer::new_with_salt(Some(sentinel), c.salt_a.to_le_bytes(), c.salt_a.rotate_left(17));
        for si in retained {
            ser.add(&a, stage_nodes[*si]).ok()?;
        }
        let stages: Vec<&St> = retained.iter().map(|r| &c.stages[*r]).collect();
        let want = assemble(&mut interner, &stages, &pool_ids)?;
        let mut a2 = Allocator::new();
        match node_from_bytes_backrefs(&mut a2, ser.get_ref()) {
            Ok(back) => Some(interner.node(&a2, back) == want),
            Err(_) => Some(false),
        }
    })
    .ok()
    .flatten()
}

fn gen_stage(t: &mut Tape, pool_len: u32, depth: u32) -> St {
    if depth == 0 {
        return match t.weighted(&[5, 2, 2]) {
            0 => St::R(t.below(pool_len)),
            1 => St::S,
            _ => St::C(t.below(pool_len)),
        };
    }
    match t.weighted(&[3, 2, 1, 5]) {
        0 => St::R(t.below(pool_len)),
        1 => St::S,
        2 => St::C(t.below(pool_len)),
        _ => {
            let l = gen_stage(t, pool_len, depth - 1);
            let r = gen_stage(t, pool_len, depth - 1);
            St::P(Box::new(l), Box::new(r))
        }
    }
}

pub fn gen_case(t: &mut Tape) -> Case {
    let cfg = TreeCfg { max_nodes: 14, max_atom: 12, reprs: false, dup_atoms: 30, deep: 0 };
    let mut pool = gen_tree(t, &cfg);
    // make sure a few atoms long enough to be worth a back-reference exist
    let extra = t.below(3);
    for k in 0..extra {
        let b = [0x11 * (k as u8 + 1); 6];
        let x = pool.atom(&b);
        let r = pool.root();
        if t.flip() {
            pool.pair(x, r - 1);
        }
        let _ = r;
    }
    let pool_len = pool.n.len() as u32;
    let ns = 1 + t.below(5);
    let mut stages = Vec::new();
    for _ in 0..ns {
        let d = t.below(4);
        stages.push(gen_stage(t, pool_len, d));
    }
    // the list idiom: (item . sentinel)
    if t.flip() {
        let item = St::R(t.below(pool_len));
        stages.push(St::P(Box::new(item), Box::new(St::S)));
    }
    // a terminator without holes
    stages.push(St::R(t.below(pool_len)));
    let nops = 1 + t.below(12);
    let mut ops = Vec::new();
    for _ in 0..nops {
        if t.chance(1, 4) {
            ops.push(Op::Restore((t.word() >> 16) as u16));
        } else {
            ops.push(Op::Add(t.below(stages.len() as u32)));
        }
    }
    // try to finish: add hole-free stages at the end
    let last = stages.len() as u32 - 1;
    for _ in 0..t.below(4) {
        ops.push(Op::Add(last));
    }
    Case { pool, stages, ops, salt_a: t.u64(), salt_b: t.u64() }
}

pub fn run(r: &mut Runner) {
    r.rule = "a pool of shared sub-trees; stages are small trees over pool references (same NodePtr), fresh value-equal copies and sentinel holes (0..n per stage); history of <= 16 add/undo calls, undo to any retained UndoState; \
        four serializers in lockstep (two injected salts via the verif-hooks constructor, two with OS-random salts). \
        Non-trivial = an undo followed by a different addition sharing a pool sub-tree of serialized length >= 4 with an undone stage, and the serialization completed; distinct by case. \
        Oracle: byte snapshots (undo), model assembly of retained stages decoded by the implementation decoder and the independent back-reference decoder, salt independence after every step."
        .into();
    r.assumptions = vec![
        "add() is not called after it returned true (documented); undo states are restored in stack discipline (restoring an earlier state discards later ones)".into(),
        "the sentinel is a unique pair NodePtr, as in the repository's own tests".into(),
    ];
    let n = r.n(100_000, 4_000_000);
    r.run_part("histories", n, 300, gen_case, test_case);
    r.require_label("undo+different add sharing sub-tree, completed", 2000);
}
