//! C08 — soft-fork safety: nodes unaware of an extension accept what aware nodes accept.
//! C31 — softfork guards are isolated and always yield nil (shares the generator).

use crate::checks::progcase::{BIG_BUDGET, ProgCase, gen_prog_case, run_fresh, run_hiding, safe_unlimited, show_case};
use crate::dag::{Dag, Interner};
use crate::engine::{Runner, Verdict};
use crate::r#gen::atoms::int_bytes;
use crate::r#gen::programs::{GenProg, ProgCfg, ProgInfo, gen_program, nest_guards};
use crate::model::optests::secp_valid;
use crate::tape::Tape;
use crate::util::*;
use std::sync::OnceLock;

fn secp() -> &'static (Vec<[Vec<u8>; 3]>, Vec<[Vec<u8>; 3]>) {
    static S: OnceLock<(Vec<[Vec<u8>; 3]>, Vec<[Vec<u8>; 3]>)> = OnceLock::new();
    S.get_or_init(secp_valid)
}

pub fn secp_triples() -> &'static (Vec<[Vec<u8>; 3]>, Vec<[Vec<u8>; 3]>) {
    secp()
}

fn q(d: &mut Dag, v: u32) -> u32 {
    let one = d.atom(&[1]);
    d.pair(one, v)
}

fn call(d: &mut Dag, op: &[u8], args: &[u32]) -> u32 {
    let o = d.atom(op);
    let l = d.list(args);
    d.pair(o, l)
}

/// an expression calling a 4-byte secp opcode with a valid (or slightly broken) triple
fn secp_call(t: &mut Tape, d: &mut Dag) -> u32 {
    let (k1, r1) = secp();
    let use_k1 = t.flip();
    let set = if use_k1 { k1 } else { r1 };
    let mut tri = set[t.below_usize(set.len())].clone();
    if t.chance(1, 6) {
        let which = t.below_usize(3);
        let i = t.below_usize(tri[which].len());
        tri[which][i] ^= 1 << t.below(8);
    }
    let mut args = Vec::new();
    for b in tri.iter() {
        let a = d.atom(b);
        args.push(q(d, a));
    }
    // mostly the assigned opcodes; sometimes a neighbour that differs in the low byte (cost-function bits / ignored bits)
    // or in the multiplier: those are plain unknown operators for aware and unaware nodes alike
    let mut code: [u8; 4] = if use_k1 { [0x13, 0xd6, 0x1f, 0x00] } else { [0x1c, 0x3a, 0x8f, 0x00] };
    if t.chance(1, 5) {
        match t.below(4) {
            0 => code[3] = 1 + t.below(0x3f) as u8,
            1 => code[3] = [0x40u8, 0x80, 0xc0][t.below_usize(3)] | t.below(0x40) as u8,
            2 => code[2] ^= 1 << t.below(8),
            _ => code[3] = t.below(256) as u8,
        }
    }
    call(d, &code, &args)
}

/// programs with well-formed / nested / failing guards, keccak inside extension 1, 4-byte secp ops
pub fn gen_guard_prog(t: &mut Tape, flags: u32, cfg: &ProgCfg) -> Option<GenProg> {
    let mut info = ProgInfo { guard: true, ..Default::default() };
    // inner program
    let mut inner_cfg = *cfg;
    inner_cfg.prerun_flags = flags;
    inner_cfg.max_depth = 3;
    inner_cfg.mutate_pct = 5;
    inner_cfg.raw_pct = 0;
    let (inner, inner_env, ext) = match t.below(5) {
        0 => {
            // keccak inside extension 1
            let mut d = Dag::new();
            let n = 1 + t.below(3) as usize;
            let mut args = Vec::new();
            for _ in 0..n {
                let a = d.atom(&crate::r#gen::atoms::gen_atom(t, 40));
                args.push(q(&mut d, a));
            }
            let k = call(&mut d, &[62], &args);
            if t.flip() {
                // allocate more inside: (c (keccak ..) (sha256 ..))
                let s = call(&mut d, &[11], &args);
                call(&mut d, &[4], &[k, s]);
            }
            let mut e = Dag::new();
            e.nil();
            (d, e, 1u32)
        }
        1 => {
            // 4-byte secp op inside a guard
            let mut d = Dag::new();
            secp_call(t, &mut d);
            let mut e = Dag::new();
            e.nil();
            (d, e, t.below(2))
        }
        2 => {
            // failing inner program
            let mut d = Dag::new();
            let a = d.atom(&[7]);
            let qa = q(&mut d, a);
            call(&mut d, &[8], &[qa]);
            let mut e = Dag::new();
            e.nil();
            (d, e, t.below(2))
        }
        _ => {
            let p = gen_program(t, &inner_cfg);
            if p.info.unknown_op {
                info.unknown_op = true;
            }
            (p.prog, p.env, t.below(2))
        }
    };
    let depth = 1 + t.weighted(&[6, 3, 1]) as u32;
    let guarded = nest_guards(&inner, &inner_env, depth, ext, flags)?;
    // outer context: the guard's nil is combined with other work, possibly a secp op and a second guard
    let mut d = Dag::new();
    let g = d.append(&guarded);
    let mut parts = vec![g];
    if t.chance(1, 3) {
        parts.push(secp_call(t, &mut d));
    }
    if t.chance(1, 3) {
        let a = d.atom(&crate::r#gen::atoms::gen_atom(t, 30));
        let qa = q(&mut d, a);
        parts.push(call(&mut d, &[11], &[qa]));
    }
    if t.chance(1, 4) {
        // tamper with the declared cost of the outermost guard (exact +-1): expected to fail in the aware run
        let mut d2 = guarded.clone();
        for n in d2.n.iter_mut().rev() {
            if let crate::dag::N::A(b, _) = n
                && b.len() >= 2
            {
                let l = b.len() - 1;
                b[l] = b[l].wrapping_add(if t.flip() { 1 } else { 0xff });
                break;
            }
        }
        let g2 = d.append(&d2);
        parts.push(g2);
    }
    let root = match parts.len() {
        1 => parts[0],
        _ => {
            let mut cur = parts[0];
            for p in &parts[1..] {
                cur = call(&mut d, &[4], &[cur, *p]);
            }
            cur
        }
    };
    let _ = root;
    let mut env = Dag::new();
    let x = env.atom(&int_bytes(t.below(100) as i128));
    env.list(&[x]);
    Some(GenProg { prog: d, env, info })
}

pub fn gen_case(t: &mut Tape, cfg: &ProgCfg, allow_new_cost: bool) -> ProgCase {
    let mut c = gen_prog_case(t, cfg);
    // non-strict flag sets
    c.flags &= !F_NO_UNKNOWN_OPS;
    if !allow_new_cost {
        c.flags &= !F_NEW_COST;
    }
    if t.chance(2, 3)
        && let Some(p) = gen_guard_prog(t, c.flags, cfg)
    {
        c.p = p;
    }
    c
}

fn budget_of(c: &ProgCase) -> u64 {
    match c.budgets.first() {
        Some(b) if b % 4 == 0 => 1 + (b >> 8) % 20_000_000,
        _ => {
            if safe_unlimited(&c.p) {
                0
            } else {
                BIG_BUDGET
            }
        }
    }
}

pub fn test_c08(c: &ProgCase) -> Verdict {
    if !c.p.prog.is_valid() || !c.p.env.is_valid() {
        return Verdict::discard();
    }
    if c.flags & (F_NO_UNKNOWN_OPS | F_NEW_COST) != 0 {
        return Verdict::discard();
    }
    let budget = budget_of(c);
    let mut i = Interner::new();
    let (Some(aware), Some(unaware)) = (run_fresh(&mut i, &c.p.prog, &c.p.env, c.flags, budget, None), run_hiding(&mut i, &c.p.prog, &c.p.env, c.flags, budget)) else {
        return Verdict::discard();
    };
    for r in [&aware, &unaware] {
        if let Out::Panic(m) = &r.out {
            return Verdict::fail(format!("panic: {m}\n {}", show_case(c)));
        }
    }
    let has_secp4 = c.p.prog.n.iter().any(|n| matches!(n, crate::dag::N::A(b, _) if b.len() == 4 && (b[..3] == [0x13u8, 0xd6, 0x1f] || b[..3] == [0x1cu8, 0x3a, 0x8f])));
    if aware.out.is_ok() {
        if aware.out != unaware.out {
            return Verdict::fail(format!(
                "a program accepted by the extension-aware dialect is treated differently by the unaware one (budget {budget}):\n aware:   {}\n unaware: {}\n {}",
                aware.out.show(&i),
                unaware.out.show(&i),
                show_case(c)
            ));
        }
        if aware.counts != unaware.counts {
            return Verdict::fail(format!(
                "allocator (atoms, pairs, heap) differ after the run: aware {:?}, unaware {:?}; outcome {}\n {}",
                aware.counts,
                unaware.counts,
                aware.out.show(&i),
                show_case(c)
            ));
        }
        return Verdict::pass(aware.known_guards > 0 || has_secp4)
            .label(if aware.known_guards > 0 { "guard entered" } else { "no guard entered" })
            .label(if has_secp4 { "secp4" } else { "no secp4" });
    }
    Verdict::pass(false).label(format!("aware fails:{}", aware.out.kind()))
}

pub fn run(r: &mut Runner) {
    r.rule = "programs with well-formed, nested (1..3), failing and cost-tampered guards for extensions 0/1 (declared costs computed inside-out by pre-runs), keccak inside extension 1, the 4-byte secp opcodes with valid triples from the pinned vectors (and corrupted ones), combined with ordinary generated programs; non-strict flag sets without NEW_COST_MODEL; budgets. \
        Oracle: Aware = ChiaDialect(F); Unaware = the same dialect with softfork_extension always unknown and the 4-byte secp opcodes routed to the unknown-operator rule. Aware success implies the same (result, cost, atom/pair/heap counts) for Unaware. \
        Non-trivial = the aware run succeeded and entered a known-extension guard or executed a 4-byte secp opcode; distinct by case."
        .into();
    let cfg = ProgCfg { mutate_pct: 10, raw_pct: 2, reprs: false, ..Default::default() };
    let n = r.n(20_000, 500_000);
    r.run_part("programs", n, 900, |t: &mut Tape| gen_case(t, &cfg, false), test_c08);
    r.require_label("guard entered", 2000);
    r.require_label("secp4", 500);
}
