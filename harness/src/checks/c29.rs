//! C29 — size-limited serializers fail exactly at the limit with out-of-memory.

use crate::checks::c15::TreeCase;
use crate::dag::build;
use crate::engine::{Runner, Verdict, guard};
use crate::r#gen::trees::{TreeCfg, gen_tree};
use crate::tape::Tape;
use crate::util::err_kind;
use clvmr::allocator::Allocator;
use clvmr::serde::{node_to_bytes, node_to_bytes_backrefs, node_to_bytes_backrefs_limit, node_to_bytes_limit};

/// token boundaries of a (possibly back-referencing) serialization: offsets
/// where a cons marker, a back-reference marker, a length prefix or an atom
/// body starts
fn boundaries(b: &[u8]) -> Vec<(usize, &'static str)> {
    let mut out = Vec::new();
    let mut pos = 0usize;
    while pos < b.len() {
        let x = b[pos];
        if x == 0xff {
            out.push((pos, "cons marker"));
            pos += 1;
        } else if x == 0xfe {
            out.push((pos, "backref marker"));
            pos += 1;
        } else if x <= 0x7f || x == 0x80 {
            out.push((pos, "one-byte atom"));
            pos += 1;
        } else {
            let ones = x.leading_ones() as usize;
            out.push((pos, "length prefix"));
            let mut size = (x & (0xffu8 >> ones)) as usize;
            for k in 1..ones {
                size = (size << 8) | *b.get(pos + k).unwrap_or(&0) as usize;
            }
            out.push((pos + ones, "atom body"));
            pos += ones + size;
        }
    }
    out
}

pub fn test_tree(c: &TreeCase) -> Verdict {
    if !c.tree.is_valid() {
        return Verdict::discard();
    }
    let res = guard(|| {
        let mut a = Allocator::new();
        let node = build(&mut a, &c.tree).map_err(|e| (format!("build: {e}"), None))?;
        let mut labels: Vec<String> = Vec::new();
        let mut inside = false;
        for (name, backrefs) in [("node_to_bytes_limit", false), ("node_to_bytes_backrefs_limit", true)] {
            let ser = |limit: usize| {
                if backrefs {
                    node_to_bytes_backrefs_limit(&a, node, limit)
                } else {
                    node_to_bytes_limit(&a, node, limit)
                }
            };
            // the reference is the unlimited serializer itself, not the limited one with a large limit
            // (node_to_bytes itself is the limited serializer with a 2,000,000-byte limit: for larger trees the
            // independent classic encoder is the reference)
            let full = if backrefs {
                node_to_bytes_backrefs(&a, node).map_err(|e| (format!("unlimited serializer: {e}"), None))?
            } else {
                match node_to_bytes(&a, node) {
                    Ok(b) => b,
                    Err(_) => crate::model::refserde::encode_classic(&c.tree, usize::MAX >> 2).ok_or_else(|| ("reference encoder failed".to_string(), None))?,
                }
            };
            let huge = ser(usize::MAX >> 2).map_err(|e| (format!("{name} with a huge limit: {e}"), None))?;
            if huge != full {
                return Err((format!("{name} with a huge limit returns {} bytes that differ from the unlimited serializer's {} bytes", huge.len(), full.len()), None));
            }
            let len = full.len();
            let bounds = boundaries(&full);
            let mut limits: Vec<usize> = if len <= 300 {
                (0..=len + 1).collect()
            } else {
                let mut v = vec![0, 1, len - 1, len, len + 1];
                for (k, (off, _)) in bounds.iter().enumerate() {
                    if k % (bounds.len() / 100 + 1) == 0 {
                        v.extend([off.saturating_sub(1), *off, off + 1]);
                    }
                }
                v
            };
            limits.sort();
            limits.dedup();
            for l in limits {
                match ser(l) {
                    Ok(b) => {
                        if len > l {
                            return Err((format!(
                                "{name}(limit={l}) succeeded with {} bytes although the serialization is {len} bytes",
                                b.len()
                            ), None));
                        }
                        if b != full {
                            return Err((format!("{name}(limit={l}) returned different bytes than the unlimited call"), None));
                        }
                    }
                    Err(e) => {
                        // which token does the limit cut?
                        let tok = bounds
                            .iter()
                            .rev()
                            .find(|(off, _)| *off <= l)
                            .map(|x| x.1)
                            .unwrap_or("start");
                        if len <= l {
                            return Err((format!("{name}(limit={l}) failed with {e} although the serialization is only {len} bytes"), None));
                        }
                        if err_kind(&e) != "OutOfMemory" {
                            return Err((format!(
                                "{name}(limit={l}) on a {len}-byte serialization failed with {:?} ('{e}') instead of OutOfMemory; limit crossed at: {tok}",
                                err_kind(&e)
                            ), Some(format!("wrong-error:{}", err_kind(&e)))));
                        }
                        inside = true;
                        labels.push(format!("cut:{tok}"));
                    }
                }
            }
        }
        labels.sort();
        labels.dedup();
        Ok((inside, labels))
    });
    match res {
        Ok(Ok((inside, labels))) => Verdict::pass(inside).with_labels(labels),
        Ok(Err((m, Some(sig)))) => Verdict::fail_sig(m, sig),
        Ok(Err((m, None))) => Verdict::fail(m),
        Err(p) => Verdict::fail(format!("panic: {p}")),
    }
}

pub fn run(r: &mut Runner) {
    r.rule = "generated DAGs; for serializations <= 300 bytes every limit 0..=len+1, otherwise limits around sampled token boundaries; both serializers. \
        Non-trivial = some limit fell inside the output; distinct by tree. Labels: token kind at the crossing."
        .into();
    let cfg = TreeCfg { max_nodes: 40, max_atom: 120, reprs: true, dup_atoms: 40, deep: 0 };
    let n = r.n(5_000, 100_000);
    r.run_part("trees", n, 300, |t: &mut Tape| TreeCase { tree: gen_tree(t, &cfg) }, test_tree);
    for l in ["cut:cons marker", "cut:length prefix", "cut:atom body", "cut:backref marker"] {
        r.require_label(l, 50);
    }
}
