//! C21 — serde_2026 varints are a bijection with strict minimality.

use crate::engine::{Runner, Tier, Verdict, guard};
use crate::model::refserde::{varint_decode, varint_encode, varint_min_len};
use crate::tape::Tape;
use crate::util::hexbytes;
use clvmr::serde_2026::{read_varint, write_varint};
use serde::{Deserialize, Serialize};
use std::io::Cursor;

#[derive(Serialize, Deserialize, Clone, Debug)]
pub struct Enc {
    #[serde(with = "hexbytes")]
    pub b: Vec<u8>,
}

#[derive(Serialize, Deserialize, Clone, Debug)]
pub struct Val {
    pub v: i64,
}

/// the i-th complete encoding of exactly `n` bytes
fn nth_encoding(n: usize, i: u64) -> Vec<u8> {
    // value bits: 7n; layout: (n-1) ones, zero, then the bits
    let bits = 7 * n as u32;
    debug_assert!(i < (1u64 << bits));
    let mut out = vec![0u8; n];
    for (k, o) in out.iter_mut().enumerate() {
        *o = (i >> (8 * (n - 1 - k))) as u8;
    }
    let lead: u8 = if n == 1 { 0 } else { !(0xffu8 >> (n - 1)) };
    out[0] |= lead;
    out
}

fn impl_read(b: &[u8], strict: bool) -> Result<Result<(i64, u64), String>, String> {
    guard(|| {
        let mut c = Cursor::new(b);
        match read_varint(&mut c, strict) {
            Ok(v) => Ok((v, c.position())),
            Err(e) => Err(e.to_string()),
        }
    })
}

pub fn test_encoding(e: &Enc) -> Verdict {
    let b = &e.b;
    let reference = varint_decode(b);
    let lenient = match impl_read(b, false) {
        Ok(r) => r,
        Err(p) => return Verdict::fail(format!("read_varint(lenient) panicked on {}: {p}", hex::encode(b))),
    };
    let strict = match impl_read(b, true) {
        Ok(r) => r,
        Err(p) => return Verdict::fail(format!("read_varint(strict) panicked on {}: {p}", hex::encode(b))),
    };
    match reference {
        Err(_) => {
            if lenient.is_ok() || strict.is_ok() {
                return Verdict::fail(format!(
                    "encoding {} is invalid/truncated per the format but was accepted: lenient={lenient:?} strict={strict:?}",
                    hex::encode(b)
                ));
            }
            Verdict::pass(!b.is_empty()).label("rejected")
        }
        Ok((v, n, minimal)) => {
            match &lenient {
                Ok((iv, used)) => {
                    if *iv != v || *used != n as u64 {
                        return Verdict::fail(format!(
                            "encoding {}: lenient decode gave value {iv} consuming {used}; the format denotes {v} in {n} bytes",
                            hex::encode(b)
                        ));
                    }
                }
                Err(m) => {
                    return Verdict::fail(format!(
                        "encoding {} denotes {v} but lenient decode failed: {m}",
                        hex::encode(b)
                    ));
                }
            }
            match (&strict, minimal) {
                (Ok((iv, used)), true) => {
                    if *iv != v || *used != n as u64 {
                        return Verdict::fail(format!(
                            "encoding {}: strict decode gave {iv}/{used}, expected {v}/{n}",
                            hex::encode(b)
                        ));
                    }
                }
                (Err(m), true) => {
                    return Verdict::fail(format!(
                        "minimal encoding {} of {v} rejected by strict decode: {m}",
                        hex::encode(b)
                    ));
                }
                (Ok(_), false) => {
                    return Verdict::fail(format!(
                        "overlong encoding {} of {v} accepted by strict decode",
                        hex::encode(b)
                    ));
                }
                (Err(_), false) => {}
            }
            // write_varint must produce exactly the minimal encoding
            if minimal {
                let w = guard(|| {
                    let mut o = Vec::new();
                    write_varint(&mut o, v).map(|_| o)
                });
                match w {
                    Ok(Ok(o)) if o == b[..n] => {}
                    other => {
                        return Verdict::fail(format!(
                            "write_varint({v}) = {other:?}, expected {}",
                            hex::encode(&b[..n])
                        ));
                    }
                }
            }
            Verdict::pass(n >= 2 || v != 0).label(if minimal { "minimal" } else { "overlong" })
        }
    }
}

pub fn test_value(c: &Val) -> Verdict {
    let v = c.v;
    let Some(n) = varint_min_len(v) else {
        return Verdict::discard();
    };
    let expect = varint_encode(v).unwrap();
    let w = guard(|| {
        let mut o = Vec::new();
        write_varint(&mut o, v).map(|_| o)
    });
    let o = match w {
        Ok(Ok(o)) => o,
        other => return Verdict::fail(format!("write_varint({v}) failed: {other:?}")),
    };
    if o.len() != n || o != expect {
        return Verdict::fail(format!(
            "write_varint({v}) = {} ; shortest encoding is {} ({n} bytes)",
            hex::encode(&o),
            hex::encode(&expect)
        ));
    }
    for strict in [true, false] {
        // with trailing junk: must consume exactly n
        let mut buf = o.clone();
        buf.extend_from_slice(&[0xff, 0x00, 0x80]);
        match impl_read(&buf, strict) {
            Ok(Ok((iv, used))) if iv == v && used == n as u64 => {}
            other => {
                return Verdict::fail(format!(
                    "read_varint(strict={strict}) of write_varint({v})={} gave {other:?}",
                    hex::encode(&o)
                ));
            }
        }
        // every proper prefix is a truncation
        for k in 0..n {
            match impl_read(&o[..k], strict) {
                Ok(Err(_)) => {}
                other => {
                    return Verdict::fail(format!(
                        "truncated encoding {} (of {v}) gave {other:?}",
                        hex::encode(&o[..k])
                    ));
                }
            }
        }
    }
    // every longer encoding of the same value: lenient yields v, strict rejects
    for m in (n + 1)..=8 {
        let bits = 7 * m as u32;
        let u = (v as u64) & ((1u64 << bits) - 1);
        let long = nth_encoding(m, u);
        match impl_read(&long, false) {
            Ok(Ok((iv, used))) if iv == v && used == m as u64 => {}
            other => {
                return Verdict::fail(format!(
                    "lenient decode of overlong {} (denotes {v}) gave {other:?}",
                    hex::encode(&long)
                ));
            }
        }
        match impl_read(&long, true) {
            Ok(Err(_)) => {}
            other => {
                return Verdict::fail(format!(
                    "strict decode of overlong {} (denotes {v}) gave {other:?}",
                    hex::encode(&long)
                ));
            }
        }
    }
    Verdict::pass(v != 0).label(format!("len{n}"))
}

fn gen_value(t: &mut Tape) -> Val {
    let v = match t.weighted(&[2, 4, 4]) {
        0 => t.below(200) as i64 - 100,
        1 => {
            let k = t.below(56);
            let base = 1i64 << k;
            let d = t.below(5) as i64 - 2;
            let s = if t.flip() { -1 } else { 1 };
            s * base + d
        }
        _ => {
            let bits = 1 + t.below(56);
            let raw = t.u64() & ((1u64 << bits) - 1);
            let v = raw as i64;
            if t.flip() { -v } else { v }
        }
    };
    // clamp into the 56-bit range
    let lo = -(1i64 << 55);
    let hi = (1i64 << 55) - 1;
    Val { v: v.clamp(lo, hi) }
}

pub fn run(r: &mut Runner) {
    r.rule = "part enc<N>: every complete N-byte varint encoding (first byte = N-1 ones, a zero, value bits), enumerated exhaustively; \
        non-trivial = encoding longer than 1 byte or value != 0 (indices are distinct by construction). \
        part short: every byte string of length 0..2 as raw input (truncations, 0xff). \
        part values: 56-bit values (+-2^k+-d, random widths); non-trivial = value != 0, distinct by value. \
        Oracle: hand-written decoder/minimal-length function from docs/serde-2026.md."
        .into();
    r.assumptions = vec![
        "values outside [-2^55, 2^55-1] are out of the format's domain (write_varint documents a panic there)".into(),
    ];
    let max_n = if r.tier == Tier::Quick { 3 } else { 4 };
    for n in 1..=max_n {
        let total = 1u64 << (7 * n as u32);
        r.run_enum(&format!("enc{n}"), total, |i| Enc { b: nth_encoding(n, i) }, test_encoding);
    }
    // all raw byte strings of length 0..=2 (covers truncated multi-byte forms and 0xff)
    r.run_enum(
        "short",
        1 + 256 + 65536,
        |i| Enc {
            b: if i == 0 {
                vec![]
            } else if i <= 256 {
                vec![(i - 1) as u8]
            } else {
                let j = i - 257;
                vec![(j >> 8) as u8, j as u8]
            },
        },
        test_encoding,
    );
    r.extra.insert(
        "exhaustive_subspace".into(),
        serde_json::json!(format!("all complete encodings of 1..={max_n} bytes and all raw strings of <=2 bytes")),
    );
    let n = r.n(200_000, 10_000_000);
    r.run_part("values", n, 12, gen_value, test_value);
}
