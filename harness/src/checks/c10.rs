//! C10 — operator costs follow the documented cost models.

use crate::checks::c08::secp_triples;
use crate::checks::c25::op_table;
use crate::dag::{Dag, build};
use crate::engine::{Runner, Verdict, guard};
use crate::r#gen::atoms::{gen_atom, gen_int, gen_repr, int_bytes, pad_int};
use crate::r#gen::programs::{valid_g1, valid_g2};
use crate::r#gen::trees::{TreeCfg, gen_tree};
use crate::model::costmodel::{arg_nodes, calibrate, op_cost};
use crate::tape::Tape;
use crate::util::*;
use clvmr::allocator::Allocator;
use clvmr::chia_dialect::ChiaDialect;
use clvmr::run_program::run_program;
use serde::{Deserialize, Serialize};

#[derive(Serialize, Deserialize, Clone, Debug)]
pub struct Case {
    pub op: String,
    pub args: Dag,
    pub new_model: bool,
    pub malachite: bool,
}

pub fn opcode(op: &str) -> Option<Vec<u8>> {
    Some(match op {
        "if" => vec![3],
        "cons" => vec![4],
        "first" => vec![5],
        "rest" => vec![6],
        "listp" => vec![7],
        "eq" => vec![9],
        "gr_bytes" => vec![10],
        "sha256" => vec![11],
        "substr" => vec![12],
        "strlen" => vec![13],
        "concat" => vec![14],
        "add" => vec![16],
        "subtract" => vec![17],
        "multiply" => vec![18],
        "div" => vec![19],
        "divmod" => vec![20],
        "gr" => vec![21],
        "ash" => vec![22],
        "lsh" => vec![23],
        "logand" => vec![24],
        "logior" => vec![25],
        "logxor" => vec![26],
        "lognot" => vec![27],
        "point_add" => vec![29],
        "pubkey_for_exp" => vec![30],
        "not" => vec![32],
        "any" => vec![33],
        "all" => vec![34],
        "coinid" => vec![48],
        "g1_subtract" => vec![49],
        "g1_multiply" => vec![50],
        "g1_negate" => vec![51],
        "g2_add" => vec![52],
        "g2_subtract" => vec![53],
        "g2_multiply" => vec![54],
        "g2_negate" => vec![55],
        "g1_map" => vec![56],
        "g2_map" => vec![57],
        "pairing_identity" => vec![58],
        "bls_verify" => vec![59],
        "modpow" => vec![60],
        "mod" => vec![61],
        "keccak256" => vec![62],
        "sha256tree" => vec![63],
        "secp256k1_verify" => vec![64],
        "secp256r1_verify" => vec![65],
        _ => return None,
    })
}

pub fn test_case(c: &Case) -> Verdict {
    if !c.args.is_valid() {
        return Verdict::discard();
    }
    let Some((_, f)) = op_table().into_iter().find(|(n, _)| *n == c.op) else {
        return Verdict::discard();
    };
    let bits = if c.new_model { F_NEW_COST } else { 0 } | if c.malachite { F_MALACHITE } else { 0 } | F_KECCAK | F_SHA256_TREE | F_SECP;
    let want = op_cost(&c.op, &c.args, c.new_model);
    let what = || format!("operator {} args {} flags {}", c.op, crate::dag::dag_hex(&c.args, 500), flag_names(bits));
    // direct call
    let r = guard(|| {
        let mut a = Allocator::new();
        let args = build(&mut a, &c.args).expect("build");
        f(&mut a, args, u64::MAX, flags(bits)).map(|r| r.0).map_err(|e| format!("{}: {e}", err_kind(&e)))
    });
    let direct = match r {
        Ok(x) => x,
        Err(p) => return Verdict::fail(format!("panic: {p}\n {}", what())),
    };
    let got = match direct {
        Ok(cst) => cst,
        Err(_) => {
            // not a successful call: outside the property's domain
            return Verdict::pass(false).label(format!("fails:{}", c.op));
        }
    };
    let Some(want) = want else {
        return Verdict::fail(format!("the call succeeds with cost {got} but the documented formula does not cover these arguments\n {}", what()));
    };
    if got != want {
        return Verdict::fail(format!("charged {got}, the documented formula gives {want}\n {}", what()));
    }
    // inside run_program with quoted arguments: 1 + 20 per argument + operator cost
    let nodes = arg_nodes(&c.args);
    let proper = {
        let mut cur = c.args.root();
        while let crate::dag::N::P(_, r) = &c.args.n[cur as usize] {
            cur = *r;
        }
        matches!(&c.args.n[cur as usize], crate::dag::N::A(b, _) if b.is_empty())
    };
    if proper && let Some(code) = opcode(&c.op) {
        let r = guard(|| {
            let mut a = Allocator::new();
            let all = crate::dag::build_all(&mut a, &c.args).expect("build");
            let one = a.one();
            let mut list = a.nil();
            for n in nodes.iter().rev() {
                let q = a.new_pair(one, all[*n as usize]).unwrap();
                list = a.new_pair(q, list).unwrap();
            }
            let o = a.new_atom(&code).unwrap();
            let prog = a.new_pair(o, list).unwrap();
            let env = a.nil();
            let d = ChiaDialect::new(flags(bits));
            run_program(&mut a, &d, prog, env, 0).map(|r| r.0).map_err(|e| e.to_string())
        });
        match r {
            Ok(Ok(total)) => {
                let expect = 1 + 20 * nodes.len() as u64 + want;
                if total != expect {
                    return Verdict::fail(format!("inside run_program the total is {total}; expected 1 + 20*{} + {want} = {expect}\n {}", nodes.len(), what()));
                }
            }
            Ok(Err(e)) => return Verdict::fail(format!("direct call succeeds but run_program fails: {e}\n {}", what())),
            Err(p) => return Verdict::fail(format!("panic in run_program: {p}\n {}", what())),
        }
    }
    let nonempty = c.args.n.iter().any(|n| matches!(n, crate::dag::N::A(b, _) if !b.is_empty()));
    Verdict::pass(nonempty).label(format!("{}:{}", c.op, if c.new_model { "new" } else { "old" }))
}

fn int_atom(t: &mut Tape, d: &mut Dag, max: usize) -> u32 {
    let mut b = match t.weighted(&[5, 3, 2]) {
        0 => int_bytes(gen_int(t)),
        1 => {
            let n = 1 + t.below(max as u32) as usize;
            t.bytes(n)
        }
        _ => int_bytes(*t.pick(&[0i128, 1, -1, 127, 128, -128, -129, 255, 256, 65535, 65536])),
    };
    if t.chance(1, 6) {
        b = pad_int(t, &b);
    }
    let r = gen_repr(t);
    d.atom_r(&b, r)
}

fn int_atom2(t: &mut Tape, d: &mut Dag, num: u32, den: u32, big: usize, small: usize) -> u32 {
    let max = if t.chance(num, den) { big } else { small };
    int_atom(t, d, max)
}

fn bytes_atom(t: &mut Tape, d: &mut Dag, max: usize) -> u32 {
    let b = if t.chance(1, 12) {
        let n = t.below(max as u32 + 1) as usize;
        t.bytes(n)
    } else {
        gen_atom(t, max.min(300))
    };
    let r = gen_repr(t);
    d.atom_r(&b, r)
}

const OPS: [&str; 46] = [
    "if", "cons", "first", "rest", "listp", "eq", "gr_bytes", "sha256", "substr", "strlen", "concat", "add", "subtract", "multiply", "div", "divmod", "gr", "ash",
    "lsh", "logand", "logior", "logxor", "lognot", "point_add", "pubkey_for_exp", "not", "any", "all", "coinid", "g1_subtract", "g1_multiply", "g1_negate", "g2_add",
    "g2_subtract", "g2_multiply", "g2_negate", "g1_map", "g2_map", "pairing_identity", "bls_verify", "modpow", "mod", "keccak256", "sha256tree", "secp256k1_verify",
    "secp256r1_verify",
];

pub fn gen_case(t: &mut Tape, heavy: bool) -> Case {
    // cheap operators are drawn more often than the BLS ones
    let op = if heavy {
        *t.pick(&["point_add", "pubkey_for_exp", "g1_subtract", "g1_multiply", "g1_negate", "g2_add", "g2_subtract", "g2_multiply", "g2_negate", "g1_map", "g2_map", "pairing_identity", "bls_verify", "secp256k1_verify", "secp256r1_verify"])
    } else {
        loop {
            let o = *t.pick(&OPS);
            if !["point_add", "pubkey_for_exp", "g1_subtract", "g1_multiply", "g2_add", "g2_subtract", "g2_multiply", "g1_map", "g2_map", "pairing_identity", "bls_verify", "secp256k1_verify", "secp256r1_verify"].contains(&o) {
                break o;
            }
        }
    };
    let mut d = Dag::new();
    let mut items: Vec<u32> = Vec::new();
    let any_tree = |t: &mut Tape, d: &mut Dag| {
        let sub = gen_tree(t, &TreeCfg { max_nodes: 8, max_atom: 20, reprs: true, dup_atoms: 20, deep: 0 });
        d.append(&sub)
    };
    match op {
        "if" => {
            for _ in 0..3 {
                items.push(any_tree(t, &mut d));
            }
        }
        "cons" => {
            for _ in 0..2 {
                items.push(any_tree(t, &mut d));
            }
        }
        "first" | "rest" => {
            let x = any_tree(t, &mut d);
            let y = any_tree(t, &mut d);
            items.push(d.pair(x, y));
        }
        "listp" | "not" => items.push(any_tree(t, &mut d)),
        "any" | "all" => {
            for _ in 0..t.below(6) {
                items.push(any_tree(t, &mut d));
            }
        }
        "eq" | "gr_bytes" => {
            for _ in 0..2 {
                items.push(bytes_atom(t, &mut d, 200_000));
            }
        }
        "sha256" | "keccak256" | "concat" => {
            for _ in 0..t.below(6) {
                items.push(bytes_atom(t, &mut d, 300_000));
            }
        }
        "strlen" => items.push(bytes_atom(t, &mut d, 300_000)),
        "substr" => {
            let n = t.below(200) as usize;
            let b = t.bytes(n);
            { let r = gen_repr(t); items.push(d.atom_r(&b, r)); }
            let s = t.below(n as u32 + 1);
            items.push(d.atom(&int_bytes(s as i128)));
            if t.flip() {
                let e = s + t.below(n as u32 - s + 1);
                items.push(d.atom(&int_bytes(e as i128)));
            }
        }
        "add" | "subtract" | "logand" | "logior" | "logxor" => {
            for _ in 0..t.below(6) {
                items.push(int_atom2(t, &mut d, 1, 10, 100_000, 64));
            }
        }
        "multiply" => {
            for _ in 0..t.below(5) {
                items.push(int_atom2(t, &mut d, 1, 10, 4000, 48));
            }
        }
        "div" | "divmod" | "mod" => {
            items.push(int_atom2(t, &mut d, 1, 8, 20_000, 64));
            let mut dv = int_atom2(t, &mut d, 1, 8, 5_000, 32);
            if matches!(&d.n[dv as usize], crate::dag::N::A(b, _) if b.iter().all(|x| *x == 0)) {
                dv = d.atom(&[3]);
            }
            items.push(dv);
        }
        "gr" => {
            for _ in 0..2 {
                items.push(int_atom2(t, &mut d, 1, 8, 100_000, 64));
            }
        }
        "ash" | "lsh" => {
            items.push(int_atom2(t, &mut d, 1, 8, 5000, 40));
            let s: i128 = match t.below(4) {
                0 => t.below(64) as i128 - 32,
                1 => 65535,
                2 => -65535,
                _ => t.below(4000) as i128 - 2000,
            };
            items.push(d.atom(&int_bytes(s)));
        }
        "lognot" => items.push(int_atom(t, &mut d, 2000)),
        "pubkey_for_exp" => items.push(int_atom(t, &mut d, 100)),
        "coinid" => {
            { let b = t.bytes(32); items.push(d.atom(&b)); }
            { let b = t.bytes(32); items.push(d.atom(&b)); }
            let amt = t.u64() >> t.below(64);
            items.push(d.atom(&int_bytes(amt as i128)));
        }
        "point_add" | "g1_subtract" => {
            for _ in 0..t.below(4) {
                { let b = valid_g1(t.below_usize(6)); let r = gen_repr(t); items.push(d.atom_r(&b, r)); }
            }
        }
        "g2_add" | "g2_subtract" => {
            for _ in 0..t.below(4) {
                { let b = valid_g2(t.below_usize(5)); let r = gen_repr(t); items.push(d.atom_r(&b, r)); }
            }
        }
        "g1_multiply" => {
            items.push(d.atom(&valid_g1(t.below_usize(6))));
            items.push(int_atom(t, &mut d, 80));
        }
        "g2_multiply" => {
            items.push(d.atom(&valid_g2(t.below_usize(5))));
            items.push(int_atom(t, &mut d, 80));
        }
        "g1_negate" => { let b = valid_g1(t.below_usize(6)); let r = gen_repr(t); items.push(d.atom_r(&b, r)); }
        "g2_negate" => { let b = valid_g2(t.below_usize(5)); let r = gen_repr(t); items.push(d.atom_r(&b, r)); }
        "g1_map" | "g2_map" => {
            items.push(bytes_atom(t, &mut d, 3000));
            if t.flip() {
                items.push(bytes_atom(t, &mut d, 200));
            }
        }
        "pairing_identity" => {
            for _ in 0..t.below(3) {
                let g1 = valid_g1(1 + t.below_usize(5));
                let mut neg = g1.clone();
                neg[0] ^= 0x20;
                let g2 = valid_g2(1 + t.below_usize(4));
                for (x, y) in [(g1, g2.clone()), (neg, g2)] {
                    items.push(d.atom(&x));
                    items.push(d.atom(&y));
                }
            }
        }
        "bls_verify" => {
            let n = t.below(3) as usize;
            let mut agg = chia_bls::Signature::default();
            let mut rest = Vec::new();
            for k in 0..n {
                let seed = [t.below(4) as u8 + 1; 32];
                let sk = chia_bls::SecretKey::from_seed(&seed);
                let ml = t.below(if k == 0 { 2000 } else { 40 }) as usize;
                let msg = t.bytes(ml);
                agg += &chia_bls::sign(&sk, &msg);
                rest.push(d.atom(&sk.public_key().to_bytes()));
                rest.push(d.atom(&msg));
            }
            items.push(d.atom(&agg.to_bytes()));
            items.extend(rest);
        }
        "modpow" => {
            items.push(int_atom2(t, &mut d, 1, 8, 300, 40));
            let mut e = int_bytes(gen_int(t).abs());
            if t.chance(1, 8) {
                let n = 1 + t.below(200) as usize;
                e = t.bytes(n);
                e[0] &= 0x7f;
            }
            items.push(d.atom(&e));
            let mut m = int_atom2(t, &mut d, 1, 8, 300, 40);
            if matches!(&d.n[m as usize], crate::dag::N::A(b, _) if b.iter().all(|x| *x == 0)) {
                m = d.atom(&[7]);
            }
            items.push(m);
        }
        "sha256tree" => {
            let tree = match t.below(4) {
                0 => {
                    // doubling tree: heavy sharing
                    let mut td = Dag::new();
                    let n = t.below(50) as usize;
                    let bb = t.bytes(n);
                    let mut cur = td.atom(&bb);
                    for _ in 0..(1 + t.below(14)) {
                        cur = td.pair(cur, cur);
                    }
                    td
                }
                1 => {
                    let mut td = Dag::new();
                    let n = 13 + t.below(500_000) as usize;
                    let bb = t.bytes(n);
                    td.atom(&bb);
                    td
                }
                _ => gen_tree(t, &TreeCfg { max_nodes: 60, max_atom: 100, reprs: true, dup_atoms: 40, deep: 2000 }),
            };
            items.push(d.append(&tree));
        }
        "secp256k1_verify" | "secp256r1_verify" => {
            let (k1, r1) = secp_triples();
            let set = if op == "secp256k1_verify" { k1 } else { r1 };
            let tri = &set[t.below_usize(set.len())];
            for b in tri.iter() {
                { let r = gen_repr(t); items.push(d.atom_r(b, r)); }
            }
        }
        _ => {}
    }
    let term = if t.chance(1, 40) { d.atom(&[9]) } else { d.nil() };
    d.list_term(&items, term);
    Case { op: op.to_string(), args: d, new_model: t.flip(), malachite: t.flip() }
}

pub fn run(r: &mut Runner) {
    r.rule = "every operator of ChiaDialect x both cost models x +-MALACHITE x argument lists built for success (sizes 0..300 KB for the linear operators, multiply <= 4 KB, division <= 20 KB, modpow <= 300 B, redundant 00/ff padding, negatives, every atom representation; valid G1/G2 points, library-made BLS signatures, cancelling pairing lists, secp triples from the pinned vectors; sha256tree over DAGs with heavy sharing incl. doubling trees to depth 15 and large atoms). \
        Oracle: the documented formulas (model calibrated on every `=> value | cost` line of op-tests/*.txt); compared on the direct call and inside run_program with quoted arguments (1 + 20n + op). Non-trivial = successful call with a non-empty atom argument; distinct by case."
        .into();
    match calibrate() {
        Ok(n) => {
            r.extra.insert("calibration_vectors".into(), serde_json::json!(n));
        }
        Err(e) => {
            r.inconclusive.push(format!("calibration failed: {e}"));
            return;
        }
    }
    let n = r.n(150_000, 3_000_000);
    r.run_part("cheap", n, 120, |t: &mut Tape| gen_case(t, false), test_case);
    let n = r.n(3_000, 60_000);
    r.run_part("bls_secp", n, 60, |t: &mut Tape| gen_case(t, true), test_case);
    for op in OPS {
        for m in ["old", "new"] {
            r.require_label(&format!("{op}:{m}"), 10);
        }
    }
}
