//! C15 — classic serialization round-trips and is canonical.

use crate::dag::{Dag, Interner, build};
use crate::engine::{Runner, Tier, Verdict, guard};
use crate::r#gen::bytes::gen_classic_bytes;
use crate::r#gen::trees::{TreeCfg, gen_tree};
use crate::model::refserde::{atom_ser_len, classic_len, encode_classic, encode_prefix};
use crate::tape::Tape;
use crate::util::hexbytes;
use clvmr::allocator::Allocator;
use clvmr::serde::verif::{decode_size_prefix, encode_size_prefix};
use clvmr::serde::{
    ObjectCache, is_canonical_serialization, node_from_bytes, node_from_stream, node_to_bytes_limit,
    serialized_length, serialized_length_from_bytes, serialized_length_from_bytes_trusted,
};
use serde::{Deserialize, Serialize};
use std::io::Cursor;

#[derive(Serialize, Deserialize, Clone, Debug)]
pub struct TreeCase {
    pub tree: Dag,
}

#[derive(Serialize, Deserialize, Clone, Debug)]
pub struct BytesCase {
    #[serde(with = "hexbytes")]
    pub b: Vec<u8>,
}

#[derive(Serialize, Deserialize, Clone, Debug)]
pub struct PrefixCase {
    pub first: u8,
    pub size: u64,
}

#[derive(Serialize, Deserialize, Clone, Debug)]
pub struct BigAtomCase {
    pub len: u64,
    pub first: u8,
    pub wrap: bool,
}

const LIMIT: usize = 1 << 30;

pub fn test_tree(c: &TreeCase) -> Verdict {
    if !c.tree.is_valid() {
        return Verdict::discard();
    }
    let d = &c.tree;
    if classic_len(d) > (8 << 20) {
        return Verdict::discard();
    }
    let expect = encode_classic(d, 16 << 20).unwrap();
    let r = guard(|| {
        let mut a = Allocator::new();
        let node = build(&mut a, d).map_err(|e| format!("build: {e}"))?;
        let bytes = node_to_bytes_limit(&a, node, LIMIT).map_err(|e| format!("node_to_bytes_limit: {e}"))?;
        if bytes != expect {
            return Err(format!(
                "serializer output differs from the classic format:\n impl   {}\n expect {}",
                crate::util::hexs(&bytes),
                crate::util::hexs(&expect)
            ));
        }
        // round trip
        let mut a2 = Allocator::new();
        let back = node_from_bytes(&mut a2, &bytes).map_err(|e| format!("node_from_bytes of own output: {e}"))?;
        let mut i = Interner::new();
        let want = i.dag(d);
        let got = i.node(&a2, back);
        if want != got {
            return Err(format!("round trip changed the tree: got {}", i.to_hex(got, 300)));
        }
        if !is_canonical_serialization(&bytes) {
            return Err("is_canonical_serialization(own output) == false".into());
        }
        let n = bytes.len() as u64;
        let mut with_junk = bytes.clone();
        with_junk.extend_from_slice(&[0xff, 0x05, 0xfe]);
        for (name, buf) in [("exact", &bytes), ("with trailing bytes", &with_junk)] {
            match serialized_length_from_bytes_trusted(buf) {
                Ok(l) if l == n => {}
                o => return Err(format!("serialized_length_from_bytes_trusted ({name}) = {o:?}, byte count {n}")),
            }
            match serialized_length_from_bytes(buf) {
                Ok(l) if l == n => {}
                o => return Err(format!("serialized_length_from_bytes ({name}) = {o:?}, byte count {n}")),
            }
        }
        let mut oc = ObjectCache::new(serialized_length);
        match oc.get_or_calculate(&a, &node, None) {
            Some(l) if *l == n => {}
            o => return Err(format!("ObjectCache<serialized_length> = {o:?}, byte count {n}")),
        }
        Ok(())
    });
    match r {
        Ok(Ok(())) => {}
        Ok(Err(m)) => return Verdict::fail(m),
        Err(p) => return Verdict::fail(format!("panic: {p}")),
    }
    let has_pair = d.pair_count() > 0;
    let mut labels = Vec::new();
    let mut prefixed = false;
    for n in &d.n {
        if let crate::dag::N::A(b, _) = n {
            let l = b.len();
            if l > 1 || (l == 1 && b[0] >= 0x80) {
                prefixed = true;
            }
            if l == 0x3f || l == 0x40 {
                labels.push("boundary:0x40".to_string());
            }
            if l == 0x1fff || l == 0x2000 {
                labels.push("boundary:0x2000".to_string());
            }
        }
    }
    labels.sort();
    labels.dedup();
    Verdict::pass(has_pair && prefixed).with_labels(labels)
}

pub fn test_bytes(c: &BytesCase) -> Verdict {
    let b = &c.b;
    let r = guard(|| {
        let mut a = Allocator::new();
        let mut cur = Cursor::new(b.as_slice());
        let node = match node_from_stream(&mut a, &mut cur) {
            Ok(n) => n,
            Err(_) => return Ok("rejected"),
        };
        let consumed = cur.position() as usize;
        if !is_canonical_serialization(b) {
            return Ok("decodes, not canonical");
        }
        let re = node_to_bytes_limit(&a, node, LIMIT).map_err(|e| format!("re-serialize: {e}"))?;
        if re != b[..consumed] || consumed != b.len() {
            return Err(format!(
                "input decodes and is judged canonical but re-serializes differently:\n input    {}\n consumed {consumed}\n reser    {}",
                crate::util::hexs(b),
                crate::util::hexs(&re)
            ));
        }
        Ok("decodes, canonical")
    });
    match r {
        Ok(Ok(l)) => Verdict::pass(l == "decodes, canonical" && b.len() > 1).label(l),
        Ok(Err(m)) => Verdict::fail(m),
        Err(p) => Verdict::fail(format!("panic: {p}")),
    }
}

/// an atom written with a length prefix of a chosen width (minimal or overlong), optionally inside a pair
#[derive(Serialize, Deserialize, Clone, Debug)]
pub struct WidthCase {
    pub len: u32,
    pub width: u8,
    pub fill: u8,
    /// 0 bare, 1 left child, 2 right child of a pair with nil
    pub wrap: u8,
}

pub fn width_bytes(c: &WidthCase) -> Option<Vec<u8>> {
    let w = c.width as usize;
    if !(1..=6).contains(&w) {
        return None;
    }
    let bits = (7 - w) + 8 * (w - 1);
    if (c.len as u64) >> bits != 0 {
        return None;
    }
    let mut sb = (c.len as u64).to_be_bytes()[8 - w..].to_vec();
    sb[0] |= (0xffu16 << (8 - w)) as u8;
    let mut atom = sb;
    atom.extend(std::iter::repeat_n(c.fill, c.len as usize));
    Some(match c.wrap {
        1 => [vec![0xff], atom, vec![0x80]].concat(),
        2 => [vec![0xff, 0x80], atom].concat(),
        _ => atom,
    })
}

/// canonical exactly when the bytes are what the independent encoder produces for the decoded tree
pub fn test_width(c: &WidthCase) -> Verdict {
    let Some(b) = width_bytes(c) else { return Verdict::discard() };
    let payload = vec![c.fill; c.len as usize];
    let mut d = crate::dag::Dag::new();
    let a = d.atom(&payload);
    match c.wrap {
        1 => {
            let n = d.nil();
            d.pair(a, n);
        }
        2 => {
            let n = d.nil();
            d.pair(n, a);
        }
        _ => {}
    }
    let canon = crate::model::refserde::encode_classic(&d, LIMIT).expect("encode");
    let want_canonical = canon == b;
    let got = match guard(|| is_canonical_serialization(&b)) {
        Ok(g) => g,
        Err(p) => return Verdict::fail(format!("is_canonical_serialization panicked: {p}")),
    };
    // the 6-byte prefix is rejected by every decoder; is_canonical must then say false as well
    if got != want_canonical {
        return Verdict::fail(format!(
            "atom of {} bytes written with a {}-byte length prefix (wrap {}): is_canonical_serialization = {got}, but the canonical encoding of the tree {} the input (first bytes {})",
            c.len,
            c.width,
            c.wrap,
            if want_canonical { "equals" } else { "differs from" },
            crate::util::hexs(&b[..b.len().min(12)])
        ));
    }
    let v = test_bytes(&BytesCase { b });
    if v.fail.is_some() {
        return v;
    }
    Verdict::pass(c.len >= 1).label(if want_canonical { "width: minimal" } else { "width: overlong" }).label(format!("width{}", c.width))
}

fn gen_width(t: &mut Tape) -> WidthCase {
    let len = match t.below(20) {
        0 => *t.pick(&[0xffffu32, 0x10000, 0x10001, 0xfffff, 0x100000, 0x100001]),
        1 => t.below(0x180000),
        2 | 3 => *t.pick(&[0x1fffu32, 0x2000, 0x2001, 0x3fff, 0x4000]),
        4 | 5 | 6 => *t.pick(&[0u32, 1, 2, 0x3e, 0x3f, 0x40, 0x41, 0x7f, 0x80, 0xff, 0x100]),
        7 | 8 => t.below(0x3000),
        _ => t.below(0x50),
    };
    let fill = *t.pick(&[0u8, 1, 0x7f, 0x80, 0xff, 0x41]);
    WidthCase { len, width: 1 + t.below(6) as u8, fill, wrap: t.below(3) as u8 }
}

pub fn test_prefix(c: &PrefixCase) -> Verdict {
    let mut expect = Vec::new();
    let ok = encode_prefix(c.first, c.size, &mut expect);
    let got = match guard(|| encode_size_prefix(c.first, c.size)) {
        Ok(g) => g,
        Err(p) => return Verdict::fail(format!("encode panic: {p}")),
    };
    match (ok, &got) {
        (false, Err(_)) => return Verdict::pass(true).label("too large rejected"),
        (false, Ok(g)) => {
            return Verdict::fail(format!("size {} >= 2^34 encoded as {}", c.size, hex::encode(g)));
        }
        (true, Err(e)) => return Verdict::fail(format!("size {} rejected: {e}", c.size)),
        (true, Ok(g)) => {
            if *g != expect {
                return Verdict::fail(format!(
                    "prefix for size {} first byte {:#x}: impl {} expected {}",
                    c.size,
                    c.first,
                    hex::encode(g),
                    hex::encode(&expect)
                ));
            }
        }
    }
    if expect.is_empty() || expect == [0x80] {
        return Verdict::pass(false).label("no prefix");
    }
    match guard(|| decode_size_prefix(&expect)) {
        Ok(Ok((plen, size))) if plen as usize == expect.len() && size == c.size => {}
        o => {
            return Verdict::fail(format!(
                "decode_size_prefix({}) = {o:?}, expected ({}, {})",
                hex::encode(&expect),
                expect.len(),
                c.size
            ));
        }
    }
    Verdict::pass(c.size >= 0x40).label(format!("prefix{}", expect.len()))
}

/// one large atom (optionally wrapped in a pair): round trip and lengths,
/// without building the expected bytes twice
pub fn test_big(c: &BigAtomCase) -> Verdict {
    let len = c.len as usize;
    let r = guard(|| {
        let mut a = Allocator::new();
        let mut buf = vec![0x5au8; len];
        if len > 0 {
            buf[0] = c.first;
            buf[len - 1] = 0xa7;
        }
        let atom = a.new_atom(&buf).map_err(|e| format!("new_atom: {e}"))?;
        let node = if c.wrap {
            let nil = a.nil();
            a.new_pair(atom, nil).map_err(|e| e.to_string())?
        } else {
            atom
        };
        let bytes = node_to_bytes_limit(&a, node, usize::MAX >> 1).map_err(|e| format!("serialize: {e}"))?;
        let expect_len = atom_ser_len(&buf) + if c.wrap { 2 } else { 0 };
        if bytes.len() as u64 != expect_len {
            return Err(format!("serialized length {} expected {expect_len}", bytes.len()));
        }
        let mut exp_prefix = Vec::new();
        if c.wrap {
            exp_prefix.push(0xff);
        }
        encode_prefix(c.first, c.len, &mut exp_prefix);
        if bytes[..exp_prefix.len()] != exp_prefix[..] {
            return Err(format!(
                "prefix {} expected {}",
                hex::encode(&bytes[..exp_prefix.len()]),
                hex::encode(&exp_prefix)
            ));
        }
        if !is_canonical_serialization(&bytes) {
            return Err("not canonical".into());
        }
        for f in [serialized_length_from_bytes_trusted, serialized_length_from_bytes] {
            match f(&bytes) {
                Ok(l) if l == expect_len => {}
                o => return Err(format!("length function gave {o:?} expected {expect_len}")),
            }
        }
        // the object-cache length function (used without serializing) must report the same length
        let mut oc = ObjectCache::new(serialized_length);
        match oc.get_or_calculate(&a, &node, None) {
            Some(l) if *l == expect_len => {}
            o => return Err(format!("ObjectCache<serialized_length> = {o:?}, the serialization has {expect_len} bytes")),
        }
        let mut a2 = Allocator::new();
        let back = node_from_bytes(&mut a2, &bytes).map_err(|e| format!("decode: {e}"))?;
        let back_atom = if c.wrap {
            match a2.sexp(back) {
                clvmr::allocator::SExp::Pair(l, _) => l,
                _ => return Err("decoded to atom".into()),
            }
        } else {
            back
        };
        if a2.atom(back_atom).as_ref() != buf.as_slice() {
            return Err("atom bytes changed in round trip".into());
        }
        Ok(())
    });
    match r {
        Ok(Ok(())) => Verdict::pass(true).label(format!("len{:#x}", c.len)),
        Ok(Err(m)) => Verdict::fail(format!("atom of {} bytes: {m}", c.len)),
        Err(p) => Verdict::fail(format!("panic: {p}")),
    }
}

const PREFIX_BOUNDS: [u64; 7] = [0, 1, 0x40, 0x2000, 0x10_0000, 0x800_0000, 0x4_0000_0000];

pub fn run(r: &mut Runner) {
    r.rule = "part trees: generated DAGs (pool/list/spine/doubling shapes, atoms from the boundary-biased atom generator, every internal representation); \
        non-trivial = has a pair and a length-prefixed atom, distinct by case. part bytes: mutated/valid/random classic byte strings; non-trivial = decodes and judged canonical, longer than 1 byte. \
        part prefix: length-prefix codec at/around every boundary and random sizes up to 2^34+; non-trivial = size >= 0x40. part widths: single atoms (also as a child of a pair) of boundary-biased lengths up to 1.5 MiB written with each length-prefix width 1..6 that can hold the length, with the complete payload: is_canonical_serialization must be true exactly for the minimal form, and the decode/canonical/re-serialize relation must hold. part big: whole atoms at the large boundaries."
        .into();
    r.assumptions = vec![
        "whole atoms >= 4 GiB cannot exist in an Allocator; that range is covered at prefix level only (hook serde::verif)".into(),
        "trees whose classic serialization exceeds 8 MiB are discarded (counted)".into(),
    ];
    let cfg = TreeCfg {
        max_nodes: 60,
        max_atom: 300,
        reprs: true,
        dup_atoms: 20,
        deep: 20000,
    };
    let n = r.n(20_000, 500_000);
    r.run_part("trees", n, 400, |t: &mut Tape| TreeCase { tree: gen_tree(t, &cfg) }, test_tree);
    let n = r.n(50_000, 2_000_000);
    r.run_part("bytes", n, 200, |t: &mut Tape| BytesCase { b: gen_classic_bytes(t) }, test_bytes);
    let n = r.n(50_000, 2_000_000);
    r.run_part(
        "prefix",
        n,
        8,
        |t: &mut Tape| {
            let size = match t.weighted(&[6, 2, 2]) {
                0 => {
                    let b = *t.pick(&PREFIX_BOUNDS);
                    (b + t.below(5) as u64).saturating_sub(2)
                }
                1 => t.u64() & 0x7_ffff_ffff,
                _ => {
                    let bits = t.below(40);
                    t.u64() & ((1u64 << bits) - 1)
                }
            };
            PrefixCase { first: (t.word() >> 24) as u8, size }
        },
        test_prefix,
    );
    // atoms written with every prefix width that can hold their length (minimal and overlong forms, complete payload)
    let n = r.n(30_000, 400_000);
    r.run_part("widths", n, 8, gen_width, test_width);
    r.require_label("width: overlong", 1000);
    r.require_label("width: minimal", 1000);
    // whole atoms at the large boundaries
    let mut lens: Vec<u64> = vec![0x3f, 0x40, 0x1fff, 0x2000, 0x2001, 0x4000, 0xffff, 0x10000, 0x10001, 0x40000, 0xfffff, 0x100000, 0x100001];
    if r.tier == Tier::Thorough {
        lens.extend([0x7ffffff, 0x8000000, 0x8000001]);
    }
    let cases: Vec<BigAtomCase> = lens
        .iter()
        .flat_map(|l| {
            [false, true]
                .into_iter()
                .flat_map(move |w| [0x00u8, 0x7f, 0x80, 0xff].into_iter().map(move |f| BigAtomCase { len: *l, first: f, wrap: w }))
        })
        .collect();
    let saved = r.threads;
    r.threads = 4; // large buffers: keep memory bounded
    r.run_enum("big", cases.len() as u64, |i| cases[i as usize].clone(), test_big);
    r.threads = saved;
    r.require_label("boundary:0x40", 20);
}
