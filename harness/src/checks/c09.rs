//! C09 — unknown operators follow the published opcode cost rule.

use crate::engine::{Runner, Verdict, guard};
use crate::model::optests::{arg_atoms, parse_file};
use crate::model::unknownop::{Unk, unknown_cost, unknown_cost_ex};
use crate::tape::Tape;
use crate::util::*;
use clvmr::allocator::{Allocator, NodePtr};
use clvmr::chia_dialect::ChiaDialect;
use clvmr::more_ops::op_unknown;
use clvmr::run_program::run_program;
use serde::{Deserialize, Serialize};

#[derive(Serialize, Deserialize, Clone, Debug)]
pub enum Arg {
    /// atom of this many bytes (a view into one shared buffer)
    Len(u32),
    Pair,
}

#[derive(Serialize, Deserialize, Clone, Debug)]
pub struct Case {
    #[serde(with = "hexbytes")]
    pub op: Vec<u8>,
    pub args: Vec<Arg>,
    pub new_model: bool,
    pub strict: bool,
    pub budget: u64,
    /// improper list terminator (ignored by the rule)
    pub improper: bool,
}

fn is_assigned(op: &[u8], bits: u32) -> bool {
    if op == [0x13, 0xd6, 0x1f, 0x00] || op == [0x1c, 0x3a, 0x8f, 0x00] {
        return true;
    }
    if op.len() != 1 || op[0] == 0 || op[0] >= 0x80 {
        return false;
    }
    match op[0] {
        1..=14 | 16..=27 | 29 | 30 | 32..=34 | 36 | 48..=61 => true,
        62 => bits & F_KECCAK != 0,
        63 => bits & F_SHA256_TREE != 0,
        64 | 65 => bits & F_SECP != 0,
        _ => false,
    }
}

fn build_args(a: &mut Allocator, args: &[Arg], improper: bool) -> (NodePtr, Vec<NodePtr>) {
    let max = args.iter().map(|x| if let Arg::Len(l) = x { *l } else { 0 }).max().unwrap_or(0) as usize;
    // one shared heap buffer; operands are substring views (no per-operand copies)
    let big = if max > 0 {
        let buf = vec![0x5au8; max.max(8)];
        Some(a.new_atom(&buf).expect("buffer"))
    } else {
        None
    };
    let mut nodes = Vec::new();
    for x in args {
        nodes.push(match x {
            Arg::Len(0) => a.nil(),
            Arg::Len(l) => a.new_substr(big.unwrap(), 0, *l).expect("view"),
            Arg::Pair => {
                let n = a.nil();
                a.new_pair(n, n).expect("pair")
            }
        });
    }
    let mut list = if improper { a.new_atom(&[7]).unwrap() } else { a.nil() };
    for n in nodes.iter().rev() {
        list = a.new_pair(*n, list).expect("pair");
    }
    (list, nodes)
}

pub fn test_case(c: &Case) -> Verdict {
    let bits = if c.new_model { F_NEW_COST } else { 0 } | if c.strict { F_NO_UNKNOWN_OPS } else { 0 };
    if is_assigned(&c.op, bits) {
        return Verdict::discard();
    }
    let lens: Vec<Option<u64>> = c.args.iter().map(|x| if let Arg::Len(l) = x { Some(*l as u64) } else { None }).collect();
    let want = unknown_cost(&c.op, &lens, c.new_model, c.budget);
    let what = || {
        format!(
            "opcode {} args {}{} model {} budget {}",
            hex::encode(&c.op),
            {
                let s = format!("{:?}", c.args);
                if s.len() > 300 { format!("{}... ({} args)", &s[..300], c.args.len()) } else { s }
            },
            if c.improper { " (improper list)" } else { "" },
            if c.new_model { "NEW_COST_MODEL" } else { "pre-hard-fork" },
            c.budget
        )
    };
    // 1. op_unknown directly (lenient rule)
    let r = guard(|| {
        let mut a = Allocator::new();
        let (list, _) = build_args(&mut a, &c.args, c.improper);
        let o = a.new_atom(&c.op).unwrap();
        let r = op_unknown(&mut a, o, list, c.budget, flags(bits & !F_NO_UNKNOWN_OPS));
        r.map(|red| (red.0, a.atom_len(red.1) == 0 && matches!(a.sexp(red.1), clvmr::allocator::SExp::Atom))).map_err(|e| err_kind(&e))
    });
    let r = match r {
        Ok(x) => x,
        Err(p) => return Verdict::fail(format!("op_unknown panicked: {p}\n {}", what())),
    };
    // for the known-finding signature: the exact product is >= 2^64
    let product_overflows_u64 = matches!(unknown_cost_ex(&c.op, &lens, c.new_model, c.budget), (Unk::ProductTooLarge, Some(p)) if p >= (1u128 << 64));
    match (&want, &r) {
        (Unk::Ok(cost), Ok((got, is_nil))) => {
            if cost != got || !is_nil {
                return Verdict::fail(format!("op_unknown returned cost {got} (nil={is_nil}); the rule gives {cost}\n {}", what()));
            }
        }
        (Unk::Ok(cost), Err(k)) => {
            return Verdict::fail(format!("op_unknown failed with {k}; the rule gives nil at cost {cost}\n {}", what()));
        }
        (w, Ok((got, _))) => {
            let msg = format!("op_unknown succeeded with cost {got}; the rule says it must fail ({w:?})\n {}", what());
            if !c.new_model && product_overflows_u64 && *w == Unk::ProductTooLarge {
                return Verdict::fail_sig(msg, "pre-hard-fork-product-wraps-mod-2^64");
            }
            return Verdict::fail(msg);
        }
        (_, Err(_)) => {}
    }
    // 2. through run_program: (op (q . a1) ...)
    if !c.improper {
        let r2 = guard(|| {
            let mut a = Allocator::new();
            let (_, nodes) = build_args(&mut a, &c.args, false);
            let one = a.one();
            let mut list = a.nil();
            for n in nodes.iter().rev() {
                let qn = a.new_pair(one, *n).unwrap();
                list = a.new_pair(qn, list).unwrap();
            }
            let o = a.new_atom(&c.op).unwrap();
            let prog = a.new_pair(o, list).unwrap();
            let d = ChiaDialect::new(flags(bits));
            let env = a.nil();
            let total_budget = c.budget.saturating_add(1 + 20 * c.args.len() as u64);
            run_program(&mut a, &d, prog, env, total_budget).map(|red| (red.0, a.atom_len(red.1) == 0)).map_err(|e| err_kind(&e))
        });
        let r2 = match r2 {
            Ok(x) => x,
            Err(p) => return Verdict::fail(format!("run_program panicked: {p}\n {}", what())),
        };
        let overhead = 1 + 20 * c.args.len() as u64;
        match (&want, &r2, c.strict) {
            (_, Ok(_), true) => return Verdict::fail(format!("strict mode (NO_UNKNOWN_OPS) accepted an unknown operator\n {}", what())),
            (_, Err(_), true) => {}
            (Unk::Ok(cost), Ok((got, is_nil)), false) => {
                if *got != cost + overhead || !is_nil || *got > c.budget.saturating_add(overhead) {
                    return Verdict::fail(format!("run_program cost {got} (nil={is_nil}); expected 1 + 20*{} + {cost}\n {}", c.args.len(), what()));
                }
            }
            (Unk::Ok(cost), Err(k), false) => {
                // the operator itself succeeds; the run fails only when the total exceeds the total budget
                let total_budget = c.budget.saturating_add(overhead);
                if cost + overhead <= total_budget || k != "CostExceeded" {
                    return Verdict::fail(format!("run_program failed with {k}; expected nil at cost {}\n {}", cost + overhead, what()));
                }
            }
            (w, Ok((got, _)), false) => {
                let msg = format!("run_program succeeded with cost {got}; the rule says the operator must fail ({w:?})\n {}", what());
                if !c.new_model && product_overflows_u64 {
                    return Verdict::fail_sig(msg, "pre-hard-fork-product-wraps-mod-2^64");
                }
                return Verdict::fail(msg);
            }
            (_, Err(_), false) => {}
        }
    }
    let func = c.op.last().map(|b| b >> 6).unwrap_or(0);
    let mult_nonzero = c.op.len() > 1 && c.op[..c.op.len() - 1].iter().any(|b| *b != 0);
    Verdict::pass((func != 0 && !c.args.is_empty()) || mult_nonzero).label(format!("{want:?}").split('(').next().unwrap().to_string())
}

fn gen_small(t: &mut Tape) -> Case {
    let len = t.weighted(&[1, 6, 6, 4, 3, 2, 1, 1]);
    let mut op: Vec<u8> = (0..len).map(|_| 0u8).collect();
    if len > 0 {
        // multiplier bytes
        for b in op.iter_mut().take(len - 1) {
            *b = match t.below(4) {
                0 => 0,
                1 => t.below(4) as u8,
                2 => 0xff,
                _ => (t.word() >> 24) as u8,
            };
        }
        op[len - 1] = ((t.below(4) << 6) | t.below(64)) as u8;
        if t.chance(1, 20) && len >= 2 {
            op[0] = 0xff;
            op[1] = 0xff;
        }
    }
    let n = t.below(9) as usize;
    let mut args = Vec::new();
    for _ in 0..n {
        args.push(if t.chance(1, 25) {
            Arg::Pair
        } else {
            Arg::Len(match t.weighted(&[3, 3, 4, 2, 1]) {
                0 => 0,
                1 => 1,
                2 => t.below(100),
                3 => 1000 + t.below(9000),
                _ => 100_000 + t.below(2_000_000),
            })
        });
    }
    let budget = match t.below(4) {
        0 => u64::MAX,
        1 => t.below(5000) as u64,
        2 => t.below(10_000_000) as u64,
        _ => 11_000_000_000,
    };
    Case { op, args, new_model: t.flip(), strict: t.chance(1, 6), budget, improper: t.chance(1, 10) }
}

/// multi-megabyte operands; multiplier searched so that base*(m+1) mod 2^64 is small
fn gen_big(t: &mut Tape) -> Case {
    let func = 1 + t.below(3) as u8; // add / mul / concat
    let new_model = t.chance(1, 3);
    let args: Vec<Arg> = match func {
        2 => {
            let a = 400_000 + t.below(1_200_000);
            let b = 400_000 + t.below(1_200_000);
            let mut v = vec![Arg::Len(a), Arg::Len(b)];
            if t.flip() {
                v.push(Arg::Len(t.below(5000)));
            }
            v
        }
        _ => {
            // many views of a large buffer: the sum of sizes reaches 2^32/3 or more
            let n = 150 + t.below(150);
            let l = 6_000_000 + t.below(4_000_000);
            (0..n).map(|_| Arg::Len(l)).collect()
        }
    };
    let lens: Vec<Option<u64>> = args.iter().map(|x| if let Arg::Len(l) = x { Some(*l as u64) } else { None }).collect();
    // base via the rule with multiplier 0
    let base = match unknown_cost(&[func << 6], &lens, new_model, u64::MAX) {
        Unk::Ok(b) => b as u128,
        _ => {
            // base > u32::MAX: recompute by hand through a tiny trick: use multiplier 0 and catch ProductTooLarge
            // (the exact base is then obtained from the formulas again)
            let mut acc: u128 = 0;
            let mut c: u128 = match func {
                1 => 99,
                2 => {
                    if new_model {
                        2000
                    } else {
                        92
                    }
                }
                _ => 142,
            };
            let mut l0: u128 = 0;
            for (k, l) in lens.iter().enumerate() {
                let l = l.unwrap() as u128;
                match func {
                    1 => {
                        if new_model {
                            acc = acc.max(l);
                            c += 500 + 4 * acc;
                        } else {
                            c += 320 + 3 * l;
                        }
                    }
                    2 => {
                        if k == 0 {
                            l0 = l;
                            if new_model {
                                c += 6 * l0;
                            }
                        } else {
                            c += 885 + 6 * (l0 + l) + l0 * l / if new_model { 16 } else { 128 };
                            l0 += l;
                        }
                    }
                    _ => c += 135 + 3 * l,
                }
            }
            c
        }
    };
    // multiplier: k*2^64/base rounded up lands just above a multiple of 2^64
    let m1: u128 = match t.below(4) {
        0 => ((1u128 << 64) / base) + 1,
        1 => ((1u128 << 64) / base) + t.below(3) as u128,
        2 => (1u128 << 32) - t.below(3) as u128,
        _ => 1 + t.word() as u128,
    };
    let m = (m1.saturating_sub(1)).min(u32::MAX as u128) as u32;
    let mut op = m.to_be_bytes().to_vec();
    op.push((func << 6) | t.below(64) as u8);
    Case { op, args, new_model, strict: false, budget: 11_000_000_000, improper: false }
}

/// products exactly at and just above 2^32-1, by construction: base | target
fn boundary_cases() -> Vec<Case> {
    let mut out = Vec::new();
    for target in [(1u64 << 32) - 1, 1u64 << 32, (1u64 << 32) - 2, (1u64 << 32) + 1, (1u64 << 32) - 3] {
        for func in [0u8, 1, 3] {
            for n in 0..6u64 {
                for sum in 0..400u64 {
                    let base = match func {
                        0 => 1,
                        1 => 99 + 320 * n + 3 * sum,
                        _ => 142 + 135 * n + 3 * sum,
                    };
                    if (func == 0 && (n > 0 || sum > 0)) || (n == 0 && sum > 0) || target % base != 0 {
                        continue;
                    }
                    let m1 = target / base;
                    if m1 == 0 || m1 > (1 << 32) {
                        continue;
                    }
                    let m = (m1 - 1) as u32;
                    let mut op: Vec<u8> = m.to_be_bytes().to_vec();
                    // minimal multiplier encoding is not required; keep 4 bytes unless reserved
                    if op[0] == 0xff && op[1] == 0xff {
                        continue;
                    }
                    op.push(func << 6);
                    let mut args = Vec::new();
                    let mut left = sum;
                    for k in 0..n {
                        let l = if k == n - 1 { left } else { left / 2 };
                        left -= l;
                        args.push(Arg::Len(l as u32));
                    }
                    for new_model in [false, true] {
                        if new_model && func == 1 {
                            continue; // different formula
                        }
                        out.push(Case { op: op.clone(), args: args.clone(), new_model, strict: false, budget: u64::MAX, improper: false });
                    }
                }
            }
        }
    }
    out
}

/// an opcode that is unassigned under the active flags must follow the unknown-operator rule inside a soft-fork guard as
/// well (the guard's operator set only adds what the extension names): `(softfork (q . c) (q . ext) (q . (OP (q . a)...)) (q . ()))`
/// under NEW_COST_MODEL, where extensions 0/1 are exempt from cost agreement, so only success/failure and the nil value
/// are predicted
#[derive(Serialize, Deserialize, Clone, Debug)]
pub struct GuardedCase {
    #[serde(with = "hexbytes")]
    pub op: Vec<u8>,
    pub args: Vec<u32>,
    pub ext: u32,
    pub flags: u32,
}

pub fn test_guarded(c: &GuardedCase) -> Verdict {
    let bits = (c.flags | F_NEW_COST) & !(F_NO_UNKNOWN_OPS | F_LIMIT_SOFTFORK);
    // operator set inside the guard: extension 0/1 under the new cost model = everything before the hard fork (keccak)
    let inside = bits | if c.ext <= 1 { F_KECCAK } else { 0 };
    if is_assigned(&c.op, inside) || c.op == [1] || c.op == [2] {
        return Verdict::discard();
    }
    let sizes: Vec<Option<u64>> = c.args.iter().map(|l| Some(*l as u64)).collect();
    let rule = unknown_cost(&c.op, &sizes, true, u64::MAX);
    let r = guard(|| {
        let mut a = Allocator::new();
        let one = a.one();
        let nil = a.nil();
        let mut list = nil;
        for l in c.args.iter().rev() {
            let v = a.new_atom(&vec![0x61u8; *l as usize]).unwrap();
            let q = a.new_pair(one, v).unwrap();
            list = a.new_pair(q, list).unwrap();
        }
        let o = a.new_atom(&c.op).unwrap();
        let inner = a.new_pair(o, list).unwrap();
        let q = |a: &mut Allocator, v: NodePtr| a.new_pair(one, v).unwrap();
        let cost = a.new_atom(&[0x0f, 0x42, 0x40]).unwrap(); // declared cost 1000000 (not compared for exempt guards)
        let ext = a.new_number(c.ext.into()).unwrap();
        let items = [q(&mut a, cost), q(&mut a, ext), q(&mut a, inner), q(&mut a, nil)];
        let mut l = nil;
        for i in items.iter().rev() {
            l = a.new_pair(*i, l).unwrap();
        }
        let sf = a.new_atom(&[36]).unwrap();
        let prog = a.new_pair(sf, l).unwrap();
        let d = ChiaDialect::new(flags(bits));
        match run_program(&mut a, &d, prog, nil, 0) {
            Ok(red) => Ok(a.atom_len(red.1) == 0 && matches!(a.sexp(red.1), clvmr::allocator::SExp::Atom)),
            Err(e) => Err(format!("{}: {e}", err_kind(&e))),
        }
    });
    let what = || format!("(softfork (q . 1000000) (q . {}) (q . ({} {} atoms of sizes {:?})) (q . ())) flags {}", c.ext, hex::encode(&c.op), c.args.len(), c.args, flag_names(bits));
    match (r, &rule) {
        (Err(p), _) => Verdict::fail(format!("panic: {p}\n {}", what())),
        (Ok(Ok(true)), Unk::Ok(_)) => Verdict::pass(true).label("guarded: ok"),
        (Ok(Ok(false)), Unk::Ok(_)) => Verdict::fail(format!("the guard did not yield nil\n {}", what())),
        (Ok(Err(_)), Unk::Ok(_)) if c.ext > 1 => Verdict::pass(false).label("guarded: unknown extension"),
        (Ok(Err(e)), Unk::Ok(c0)) => Verdict::fail(format!("opcode {} is unassigned inside this guard and the rule gives cost {c0}, but the run fails: {e}\n {}", hex::encode(&c.op), what())),
        (Ok(Ok(_)), other) => {
            if c.ext > 1 {
                // an unknown extension is not entered at all in lenient mode
                Verdict::pass(false).label("guarded: unknown extension")
            } else {
                Verdict::fail(format!("the rule rejects opcode {} ({other:?}) but the guarded run succeeds\n {}", hex::encode(&c.op), what()))
            }
        }
        (Ok(Err(_)), _) => Verdict::pass(true).label("guarded: rejected"),
    }
}

fn gen_guarded(t: &mut Tape) -> GuardedCase {
    let op = match t.below(5) {
        // opcodes that only exist behind flags, and their unassigned neighbours
        0 | 1 => vec![*t.pick(&[62u8, 63, 64, 65, 66, 67, 47, 15, 28, 31, 35, 37, 0x3f, 0x7f])],
        2 => vec![t.below(0x80) as u8],
        3 => vec![t.below(256) as u8, t.below(256) as u8],
        _ => {
            let n = 1 + t.below(6) as usize;
            t.bytes(n)
        }
    };
    let args = (0..t.below(4)).map(|_| match t.below(4) { 0 => 0, 1 => 32 + t.below(3), 2 => 33 + 32 * t.below(3), _ => t.below(100) }).collect();
    let mut flags = t.word() & F_ALL & !(F_KECCAK | F_SHA256_TREE | F_SECP);
    // the enabling flags are mostly off (then 62..65 are plain unknown operators), sometimes on
    if t.chance(1, 4) {
        flags |= *t.pick(&[F_KECCAK, F_SHA256_TREE, F_SECP]);
    }
    GuardedCase { op, args, ext: *t.pick(&[0u32, 1, 0, 1, 2, 7]), flags }
}

fn calibrate() -> Result<usize, String> {
    let mut n = 0;
    for (file, new_model) in [("test-unknown-ops", false), ("test-unknown-ops-v2", true)] {
        for t in parse_file(file) {
            let op: Vec<u8> = match crate::model::optests::symbol(&t.op) {
                Some(o) => o,
                None => continue,
            };
            // argument atoms or pairs
            let mut lens = Vec::new();
            let mut cur = t.args.root();
            while let crate::dag::N::P(l, r) = &t.args.n[cur as usize] {
                lens.push(match &t.args.n[*l as usize] {
                    crate::dag::N::A(b, _) => Some(b.len() as u64),
                    _ => None,
                });
                cur = *r;
            }
            let _ = arg_atoms;
            let got = unknown_cost(&op, &lens, new_model, u64::MAX);
            match (&t.expect, &got) {
                (Some((_, cost)), Unk::Ok(c)) if c == cost => n += 1,
                (None, g) if !matches!(g, Unk::Ok(_)) => n += 1,
                (e, g) => return Err(format!("rule model disagrees with pinned vector `{}`: model {g:?}, vector {:?}", t.line, e.as_ref().map(|x| x.1))),
            }
        }
    }
    if n == 0 { Err("no pinned unknown-op vectors found".into()) } else { Ok(n) }
}

pub fn run_guarded(r: &mut Runner) {
    let n = r.n(10_000, 300_000);
    r.run_part("guarded", n, 40, gen_guarded, test_guarded);
}

pub fn run(r: &mut Runner) {
    r.rule = "part small: opcode byte strings of length 0..7 (0xffff prefixes, leading zeros, multipliers 0/1/ff.., all four cost functions, random low six bits; assigned opcodes discarded) x argument lists of 0..8 atoms sized {0,1,<100,KB,MB} and pairs x both cost models x strict/lenient x budgets; \
        part big: constructed multi-megabyte operands (as views of one buffer) whose base reaches 2^32 with multipliers searched so that base*(m+1) lands just above a multiple of 2^64, plus neighbours. Checked on op_unknown directly and through run_program '(op (q . a1) ...)'. part guarded: the same call inside a soft-fork guard (extensions 0, 1, unknown; NEW_COST_MODEL so that the guard is exempt from cost agreement), opcodes biased to 62..67 and other values that only exist behind flags: an opcode that is unassigned inside the guard must succeed exactly when the rule says so and the guard yields nil. \
        Oracle: the published rule transcribed over u128 (calibrated on op-tests/test-unknown-ops*.txt). Non-trivial = cost function != 0 with >= 1 argument, or multiplier != 0; distinct by case."
        .into();
    match calibrate() {
        Ok(n) => {
            r.extra.insert("calibration_vectors".into(), serde_json::json!(n));
        }
        Err(e) => {
            r.inconclusive.push(format!("calibration failed: {e}"));
            return;
        }
    }
    let n = r.n(100_000, 3_000_000);
    r.run_part("small", n, 60, gen_small, test_case);
    let n = r.n(300, 5_000);
    r.run_part("big", n, 20, gen_big, test_case);
    let bc = boundary_cases();
    r.run_enum("boundary", bc.len() as u64, |i| bc[i as usize].clone(), test_case);
    run_guarded(r);
    r.require_label("guarded: ok", 500);
    for l in ["Ok", "Reserved", "TooLong", "PairArg", "BaseOverBudget", "ProductTooLarge"] {
        r.require_label(l, 50);
    }
}
