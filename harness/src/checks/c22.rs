//! C22 — all tree-hash implementations agree with the recursive definition.

use crate::checks::c15::TreeCase;
use crate::dag::build;
use crate::engine::{Runner, Verdict, guard};
use crate::r#gen::trees::{TreeCfg, gen_tree};
use crate::model::refhash::tree_hash;
use crate::model::refserde::{classic_len, encode_classic};
use crate::tape::Tape;
use crate::util::{F_NEW_COST, flags};
use clvmr::allocator::Allocator;
use clvmr::serde::{ObjectCache, intern_tree, parse_triples, tree_hash_from_stream, treehash};
use clvmr::sha_tree_op::op_sha256_tree;
use clvmr::treehash::tree_hash_costed;
use std::io::Cursor;

pub fn test_tree(c: &TreeCase) -> Verdict {
    if !c.tree.is_valid() {
        return Verdict::discard();
    }
    let d = &c.tree;
    let want = tree_hash(d);
    let r = guard(|| -> Result<(), String> {
        let mut a = Allocator::new();
        let node = build(&mut a, d).map_err(|e| format!("build: {e}"))?;
        // the costed hashers walk every occurrence of a shared sub-tree (that is what they charge for): bound the expanded size
        let expanded = {
            let mut i = crate::dag::Interner::new();
            let id = i.dag(d);
            i.tree_size(id)
        };
        for bits in [0u32, F_NEW_COST] {
            if expanded > (1 << 21) {
                break;
            }
            let red = tree_hash_costed(&mut a, node, u64::MAX, flags(bits)).map_err(|e| format!("tree_hash_costed: {e}"))?;
            if a.atom(red.1).as_ref() != want {
                return Err(format!("tree_hash_costed(flags={bits:#x}) = {}", hex::encode(a.atom(red.1).as_ref())));
            }
            let nil = a.nil();
            let args = a.new_pair(node, nil).map_err(|e| e.to_string())?;
            let red = op_sha256_tree(&mut a, args, u64::MAX, flags(bits)).map_err(|e| format!("op_sha256_tree: {e}"))?;
            if a.atom(red.1).as_ref() != want {
                return Err(format!("op_sha256_tree(flags={bits:#x}) = {}", hex::encode(a.atom(red.1).as_ref())));
            }
        }
        let mut oc = ObjectCache::new(treehash);
        match oc.get_or_calculate(&a, &node, None) {
            Some(h) if *h == want => {}
            o => return Err(format!("ObjectCache<treehash> = {:?}", o.map(hex::encode))),
        }
        let it = intern_tree(&a, node).map_err(|e| format!("intern_tree: {e}"))?;
        let h = it.tree_hash();
        if h != want {
            return Err(format!("intern_tree().tree_hash() = {}", hex::encode(h)));
        }
        if classic_len(d) <= (4 << 20) {
            let bytes = encode_classic(d, 8 << 20).unwrap();
            let h = tree_hash_from_stream(&mut Cursor::new(bytes.as_slice())).map_err(|e| format!("tree_hash_from_stream: {e}"))?;
            if h != want {
                return Err(format!("tree_hash_from_stream = {}", hex::encode(h)));
            }
            let (_, hashes) = parse_triples(&mut Cursor::new(bytes.as_slice()), true).map_err(|e| format!("parse_triples: {e}"))?;
            let h0 = hashes.and_then(|h| h.first().copied());
            if h0 != Some(want) {
                return Err(format!("parse_triples hash[0] = {:?}", h0.map(hex::encode)));
            }
        }
        Ok(())
    });
    match r {
        Ok(Ok(())) => {
            let has_pair = d.pair_count() > 0;
            let mut small = false;
            for n in &d.n {
                if let crate::dag::N::A(b, _) = n
                    && b.len() == 1
                    && b[0] <= 36
                    && b[0] > 0
                {
                    small = true;
                }
                if let crate::dag::N::A(b, _) = n
                    && b.is_empty()
                {
                    small = true;
                }
            }
            let shared = {
                let mut uses = vec![0u32; d.n.len()];
                for n in &d.n {
                    if let crate::dag::N::P(l, r) = n {
                        uses[*l as usize] += 1;
                        uses[*r as usize] += 1;
                    }
                }
                uses.iter().any(|u| *u >= 2)
            };
            Verdict::pass(has_pair && (small || shared))
                .label(if small { "has atom <= 36" } else { "no small atom" })
                .label(if shared { "shared" } else { "unshared" })
        }
        Ok(Err(m)) => Verdict::fail(format!("{m}\n recursive definition gives {}\n tree {}", hex::encode(want), crate::dag::dag_hex(d, 300))),
        Err(p) => Verdict::fail(format!("panic: {p}")),
    }
}

pub fn run(r: &mut Runner) {
    r.rule = "generated DAGs (atoms 0..40 dense, every internal representation, shared sub-trees, doubling trees, deep spines); \
        non-trivial = has a pair and (an atom <= 36 or a shared node); distinct by tree. Oracle: hand-written SHA-256 + recursive definition. \
        Part big-atoms: 1..4 atoms of 1000..100000 bytes (dense around 4096, 8192, 65536). Implementations compared: tree_hash_costed, op_sha256_tree (both cost models), ObjectCache<treehash>, intern_tree().tree_hash(), tree_hash_from_stream, parse_triples hash 0 (Python leg: py/check_c22.py)."
        .into();
    let cfg = TreeCfg { max_nodes: 60, max_atom: 100, reprs: true, dup_atoms: 30, deep: 5000 };
    let n = r.n(20_000, 500_000);
    r.run_part("trees", n, 400, |t: &mut Tape| TreeCase { tree: gen_tree(t, &cfg) }, test_tree);
    // atoms far beyond any internal read buffer (around 4096 / 8192 / 65536 bytes), combined with small ones
    let n = r.n(1_500, 30_000);
    r.run_part(
        "big-atoms",
        n,
        40,
        |t: &mut Tape| {
            use crate::dag::Dag;
            let mut d = Dag::new();
            let mut items = Vec::new();
            for _ in 0..1 + t.below(4) {
                let len = match t.below(8) {
                    0 => *t.pick(&[4095usize, 4096, 4097, 8191, 8192, 8193]),
                    1 => *t.pick(&[65535usize, 65536, 65537, 100_000]),
                    2 => t.below(40) as usize,
                    3 => 4096 * (1 + t.below_usize(4)) + t.below_usize(3),
                    _ => 1000 + t.below_usize(20_000),
                };
                let b = t.bytes(len);
                let r = crate::r#gen::atoms::gen_repr(t);
                items.push(d.atom_r(&b, r));
            }
            while items.len() > 1 {
                let r = items.pop().unwrap();
                let l = items.pop().unwrap();
                let p = d.pair(l, r);
                items.insert(t.below_usize(items.len() + 1), p);
            }
            TreeCase { tree: d }
        },
        test_tree,
    );
}
