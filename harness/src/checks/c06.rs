//! C06 — MALACHITE bignum backend is unobservable.

use crate::checks::progcase::{BIG_BUDGET, ProgCase, gen_prog_case, run_fresh, safe_unlimited, show_case};
use crate::dag::{Dag, Interner, build};
use crate::engine::{Runner, Verdict, guard};
use crate::r#gen::atoms::{gen_int, gen_repr, int_bytes, pad_int};
use crate::r#gen::programs::ProgCfg;
use crate::tape::Tape;
use crate::util::{F_MALACHITE, Out, err_kind, flag_names, flags};
use clvmr::allocator::Allocator;
use clvmr::more_ops::{op_div, op_divmod, op_mod, op_modpow};
use serde::{Deserialize, Serialize};

#[derive(Serialize, Deserialize, Clone, Debug)]
pub struct OpCase {
    pub op: u8, // 0 div, 1 divmod, 2 mod, 3 modpow
    pub args: Dag,
    pub flags: u32,
    pub max_cost: u64,
}

const NAMES: [&str; 4] = ["div", "divmod", "mod", "modpow"];

pub fn test_op(c: &OpCase) -> Verdict {
    if !c.args.is_valid() {
        return Verdict::discard();
    }
    let f = [op_div, op_divmod, op_mod, op_modpow][c.op as usize % 4];
    let mut i = Interner::new();
    let mut outs = Vec::new();
    for bits in [c.flags & !F_MALACHITE, c.flags | F_MALACHITE] {
        let mut a = Allocator::new();
        let Ok(args) = build(&mut a, &c.args) else { return Verdict::discard() };
        let r = guard(|| f(&mut a, args, c.max_cost, flags(bits)));
        outs.push(match r {
            Err(p) => Out::Panic(p),
            Ok(Ok(red)) => Out::Ok { cost: red.0, val: i.node(&a, red.1) },
            // error kind and message, as the property asks for the kind
            Ok(Err(e)) => Out::Err { kind: err_kind(&e), msg: e.to_string() },
        });
    }
    if let Out::Panic(m) = &outs[0] {
        return Verdict::fail(format!("{} panicked: {m}", NAMES[c.op as usize % 4]));
    }
    if let Out::Panic(m) = &outs[1] {
        return Verdict::fail(format!("{} with MALACHITE panicked: {m}", NAMES[c.op as usize % 4]));
    }
    let same = match (&outs[0], &outs[1]) {
        (Out::Err { kind: k1, .. }, Out::Err { kind: k2, .. }) => k1 == k2,
        (a, b) => a == b,
    };
    if !same {
        return Verdict::fail(format!(
            "{} differs with MALACHITE:\n without: {}\n with:    {}\n args {} flags {} max_cost {}",
            NAMES[c.op as usize % 4],
            outs[0].show(&i),
            outs[1].show(&i),
            crate::dag::dag_hex(&c.args, 800),
            flag_names(c.flags),
            c.max_cost
        ));
    }
    // non-trivial: success, divisor not +-1, an operand >= 2 bytes, a negative or padded operand
    let mut nt = false;
    if outs[0].is_ok() {
        let atoms: Vec<&Vec<u8>> = c.args.n.iter().filter_map(|n| if let crate::dag::N::A(b, _) = n { Some(b) } else { None }).collect();
        let big = atoms.iter().any(|b| b.len() >= 2);
        let negpad = atoms.iter().any(|b| !b.is_empty() && (b[0] & 0x80 != 0 || (b.len() > 1 && b[0] == 0 && b[1] & 0x80 == 0)));
        nt = big && negpad;
    }
    Verdict::pass(nt).label(format!("{}:{}", NAMES[c.op as usize % 4], outs[0].kind()))
}

fn gen_int_atom(t: &mut Tape, d: &mut Dag, max: usize) -> u32 {
    let mut b = match t.weighted(&[5, 2, 2, 1]) {
        0 => int_bytes(gen_int(t)),
        1 => {
            let n = 1 + t.below(max as u32) as usize;
            t.bytes(n)
        }
        2 => int_bytes(*t.pick(&[0i128, 1, -1, 2, -2, 255, 256, -256, 0x7f, 0x80, -0x80, -0x81])),
        _ => {
            // power of two boundaries with sign
            let k = t.below(8 * max.min(64) as u32);
            let v: i128 = if k < 120 { 1i128 << k } else { 1 };
            int_bytes(if t.flip() { -v } else { v } + t.below(3) as i128 - 1)
        }
    };
    if t.chance(1, 5) {
        b = pad_int(t, &b);
    }
    let r = gen_repr(t);
    d.atom_r(&b, r)
}

pub fn gen_op_case(t: &mut Tape) -> OpCase {
    let op = t.below(4) as u8;
    let mut d = Dag::new();
    let want = if op == 3 { 3 } else { 2 };
    let n = match t.weighted(&[10, 1, 1, 1]) {
        0 => want,
        1 => want + 1,
        2 => want - 1,
        _ => t.below(6) as usize,
    };
    let max = if op == 3 { 64 } else { 600 };
    let mut items = Vec::new();
    for _ in 0..n {
        if t.chance(1, 25) {
            let x = d.atom(&[1]);
            let y = d.atom(&[2]);
            items.push(d.pair(x, y));
        } else {
            items.push(gen_int_atom(t, &mut d, max));
        }
    }
    let term = if t.chance(1, 20) { d.atom(&[9]) } else { d.nil() };
    d.list_term(&items, term);
    let max_cost = match t.below(3) {
        0 => u64::MAX,
        1 => t.below(3000) as u64,
        _ => t.below(100000) as u64,
    };
    let mut flags = t.word() & crate::util::F_ALL;
    // the operand-size limits of LIMITS (256 bytes for modpow, 2048 / 1024 for the division operators) against the
    // cost check: operands just around the limits, the flag set, every kind of budget
    if t.chance(1, 6) {
        flags |= crate::util::F_LIMITS;
        flags &= !crate::util::F_NEW_COST;
        let lim: usize = if op == 3 { 256 } else { *t.pick(&[1024usize, 2048]) };
        let mut d2 = Dag::new();
        let mut it = Vec::new();
        let big = t.below_usize(want);
        for k in 0..want {
            let len = if k == big { lim - 1 + t.below_usize(3) } else { 1 + t.below_usize(40) };
            let mut b = t.bytes(len);
            if let Some(x) = b.first_mut() {
                *x = (*x & 0x7f) | 1;
            }
            it.push(d2.atom(&b));
        }
        d2.list(&it);
        let max_cost = match t.below(4) {
            0 => 0,
            1 => t.below(2000) as u64,
            2 => t.below(3_000_000) as u64,
            _ => u64::MAX,
        };
        return OpCase { op, args: d2, flags, max_cost };
    }
    OpCase { op, args: d, flags, max_cost }
}

pub fn test_prog(c: &ProgCase) -> Verdict {
    if !c.p.prog.is_valid() || !c.p.env.is_valid() {
        return Verdict::discard();
    }
    let base = c.flags & !F_MALACHITE;
    let budget = if safe_unlimited(&c.p) { 0 } else { BIG_BUDGET };
    let mut i = Interner::new();
    let (Some(x), Some(y)) = (run_fresh(&mut i, &c.p.prog, &c.p.env, base, budget, None), run_fresh(&mut i, &c.p.prog, &c.p.env, base | F_MALACHITE, budget, None)) else {
        return Verdict::discard();
    };
    let same = match (&x.out, &y.out) {
        (Out::Err { kind: k1, .. }, Out::Err { kind: k2, .. }) => k1 == k2,
        (a, b) => a == b,
    };
    if !same {
        return Verdict::fail(format!("program outcome differs with MALACHITE:\n without: {}\n with:    {}\n {}", x.out.show(&i), y.out.show(&i), show_case(c)));
    }
    // programs are counted as non-trivial when they contain one of the four operators
    let has = c.p.prog.n.iter().any(|n| matches!(n, crate::dag::N::A(b, _) if b.len() == 1 && [19u8, 20, 60, 61].contains(&b[0])));
    Verdict::pass(has && x.out.is_ok())
}

pub fn run(r: &mut Runner) {
    r.rule = "part operators: div, divmod, mod, modpow x argument lists of 0..5 elements (negative, zero, +-1, boundary powers of two, redundant 00/ff padding, up to 600 bytes / 64 for modpow, pairs, improper terminators, every atom representation) x all flag sets x budgets; \
        part programs: generated programs. Oracle: F vs F|MALACHITE: same result atoms, same cost, same error kind. Non-trivial = success with an operand of >= 2 bytes and a negative or padded operand; distinct by case."
        .into();
    let n = r.n(200_000, 5_000_000);
    r.run_part("operators", n, 60, gen_op_case, test_op);
    let cfg = ProgCfg { mutate_pct: 15, raw_pct: 3, reprs: true, ..Default::default() };
    let n = r.n(10_000, 300_000);
    r.run_part("programs", n, 600, |t: &mut Tape| gen_prog_case(t, &cfg), test_prog);
    for l in ["div:Ok", "divmod:Ok", "mod:Ok", "modpow:Ok", "div:DivisionByZero"] {
        r.require_label(l, 200);
    }
}
