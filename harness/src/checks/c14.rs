//! C14 — allocated nodes are immutable and integers are canonically encoded.

use crate::checks::alloc_sm::{Cfg, bigint_min_bytes, gen_case, minimal, run_case, small_value};
use crate::dag::{Repr, build_atom};
use crate::engine::{Runner, Tier, Verdict, guard};
use crate::r#gen::atoms::{gen_int, int_bytes};
use crate::tape::Tape;
use crate::util::hexbytes;
use clvmr::allocator::Allocator;
use clvmr::number::{Malachite, Number};
use serde::{Deserialize, Serialize};

#[derive(Serialize, Deserialize, Clone, Debug)]
pub struct Bytes {
    #[serde(with = "hexbytes")]
    pub b: Vec<u8>,
}

#[derive(Serialize, Deserialize, Clone, Debug)]
pub struct IntCase {
    /// value as minimal signed bytes
    #[serde(with = "hexbytes")]
    pub v: Vec<u8>,
}

fn nth_short(i: u64) -> Vec<u8> {
    if i == 0 {
        vec![]
    } else if i < 1 + 256 {
        vec![(i - 1) as u8]
    } else if i < 1 + 256 + 65536 {
        let j = i - 257;
        vec![(j >> 8) as u8, j as u8]
    } else {
        let j = i - 257 - 65536;
        vec![(j >> 16) as u8, (j >> 8) as u8, j as u8]
    }
}

/// one byte string in every representation: contents, small_number, number, atom_eq
pub fn test_bytes(c: &Bytes) -> Verdict {
    let b = &c.b;
    let r = guard(|| -> Result<(), String> {
        let mut a = Allocator::new();
        let other = {
            let mut o = b.clone();
            if o.is_empty() { o.push(0) } else { *o.last_mut().unwrap() ^= 1 };
            o
        };
        let padded = {
            let mut o = vec![0u8];
            o.extend_from_slice(b);
            o
        };
        let mut ptrs = Vec::new();
        for r in [Repr::Nat, Repr::Heap, Repr::View] {
            ptrs.push(build_atom(&mut a, b, r).map_err(|e| e.to_string())?);
        }
        let po = build_atom(&mut a, &other, Repr::Nat).map_err(|e| e.to_string())?;
        let pp = build_atom(&mut a, &padded, Repr::Heap).map_err(|e| e.to_string())?;
        let want_small = small_value(b);
        let want_num = minimal(b);
        for (k, p) in ptrs.iter().enumerate() {
            if a.atom(*p).as_ref() != b.as_slice() || a.atom_len(*p) != b.len() {
                return Err(format!("representation {k}: atom() = {}", hex::encode(a.atom(*p).as_ref())));
            }
            if a.small_number(*p) != want_small {
                return Err(format!("representation {k}: small_number = {:?}, rule gives {want_small:?}", a.small_number(*p)));
            }
            let (s, m) = a.number(*p).to_bytes_be();
            let nb = bigint_min_bytes(s == num_bigint::Sign::Minus, &m);
            let (s, m) = a.malachite_number(*p).to_bytes_be();
            let mb = bigint_min_bytes(s == malachite_bigint::Sign::Minus, &m);
            if nb != want_num || mb != want_num {
                return Err(format!("representation {k}: number = {} malachite = {} expected {}", hex::encode(nb), hex::encode(mb), hex::encode(&want_num)));
            }
            for (j, q) in ptrs.iter().enumerate() {
                if !a.atom_eq(*p, *q) {
                    return Err(format!("atom_eq false between representations {k} and {j}"));
                }
            }
            if a.atom_eq(*p, po) || a.atom_eq(po, *p) {
                return Err(format!("atom_eq({}, {}) true (representation {k})", hex::encode(b), hex::encode(&other)));
            }
            if a.atom_eq(*p, pp) || a.atom_eq(pp, *p) {
                return Err(format!("atom_eq({}, {}) true (representation {k})", hex::encode(b), hex::encode(&padded)));
            }
        }
        Ok(())
    });
    match r {
        Ok(Ok(())) => Verdict::pass(true).label(if small_value(b).is_some() { "canonical small" } else { "not small" }),
        Ok(Err(m)) => Verdict::fail(format!("bytes {}: {m}", hex::encode(b))),
        Err(p) => Verdict::fail(format!("bytes {}: panic {p}", hex::encode(b))),
    }
}

/// integer constructors produce minimal encodings and read back
pub fn test_int(c: &IntCase) -> Verdict {
    let want = minimal(&c.v);
    let r = guard(|| -> Result<(), String> {
        let mut a = Allocator::new();
        let n = if c.v.is_empty() { Number::from(0) } else { Number::from_signed_bytes_be(&c.v) };
        let m = if c.v.is_empty() { Malachite::from(0) } else { Malachite::from_signed_bytes_be(&c.v) };
        let p1 = a.new_number(n.clone()).map_err(|e| e.to_string())?;
        let p2 = a.new_malachite_number(m.clone()).map_err(|e| e.to_string())?;
        for (nm, p) in [("new_number", p1), ("new_malachite_number", p2)] {
            if a.atom(p).as_ref() != want.as_slice() {
                return Err(format!("{nm} stored {} expected {}", hex::encode(a.atom(p).as_ref()), hex::encode(&want)));
            }
            if a.number(p) != n || a.malachite_number(p) != m {
                return Err(format!("{nm}: value does not read back"));
            }
        }
        // i64 / u64 when in range (hand-decoded)
        if want.len() <= 8 {
            let mut v: i64 = if want.first().map(|x| x & 0x80 != 0).unwrap_or(false) { -1 } else { 0 };
            for x in &want {
                v = (v << 8) | *x as i64;
            }
            let p = a.new_i64(v).map_err(|e| e.to_string())?;
            if a.atom(p).as_ref() != want.as_slice() {
                return Err(format!("new_i64({v}) stored {} expected {}", hex::encode(a.atom(p).as_ref()), hex::encode(&want)));
            }
            if a.number(p) != Number::from(v) {
                return Err(format!("new_i64({v}) reads back as {}", a.number(p)));
            }
            if v >= 0 {
                let p = a.new_u64(v as u64).map_err(|e| e.to_string())?;
                if a.atom(p).as_ref() != want.as_slice() {
                    return Err(format!("new_u64({v}) stored {}", hex::encode(a.atom(p).as_ref())));
                }
            }
        }
        if want.len() == 9 && want[0] == 0 {
            let mut v: u64 = 0;
            for x in &want[1..] {
                v = (v << 8) | *x as u64;
            }
            let p = a.new_u64(v).map_err(|e| e.to_string())?;
            if a.atom(p).as_ref() != want.as_slice() {
                return Err(format!("new_u64({v}) stored {} expected {}", hex::encode(a.atom(p).as_ref()), hex::encode(&want)));
            }
            if a.number(p) != Number::from(v) {
                return Err(format!("new_u64({v}) reads back as {}", a.number(p)));
            }
        }
        Ok(())
    });
    match r {
        Ok(Ok(())) => Verdict::pass(!want.is_empty()).label(format!("len{}", want.len().min(10))),
        Ok(Err(m)) => Verdict::fail(format!("integer with bytes {}: {m}", hex::encode(&c.v))),
        Err(p) => Verdict::fail(format!("panic: {p}")),
    }
}

pub fn run(r: &mut Runner) {
    r.rule = "part short: every byte string up to the length bound, in every internal representation (exhaustive). part ints: integers at all width boundaries (+-2^k+-d, padded encodings, up to 40 bytes) through new_number/new_malachite_number/new_i64/new_u64. \
        part histories: allocator histories (as C12) with contents of every live node, small_number, number, atom_eq re-checked after every call; non-trivial = a node survived a restore to a checkpoint taken after its creation and was re-read afterwards; distinct by history."
        .into();
    let total = if r.tier == Tier::Quick { 1 + 256 + 65536 } else { 1 + 256 + 65536 + (1u64 << 24) };
    r.run_enum("short", total, |i| Bytes { b: nth_short(i) }, test_bytes);
    r.extra.insert(
        "exhaustive_subspace".into(),
        serde_json::json!(format!("all byte strings of length <= {}", if r.tier == Tier::Quick { 2 } else { 3 })),
    );
    // 4-byte strings around the 2^26 boundary, exhaustively in the top byte
    r.run_enum(
        "boundary4",
        256 * 6,
        |i| {
            let top = (i / 6) as u8;
            let rest: [u8; 3] = [[0, 0, 0], [0xff, 0xff, 0xff], [0x80, 0, 0], [0x7f, 0xff, 0xff], [0, 0, 1], [0xff, 0xff, 0xfe]][(i % 6) as usize];
            Bytes { b: vec![top, rest[0], rest[1], rest[2]] }
        },
        test_bytes,
    );
    let n = r.n(100_000, 3_000_000);
    r.run_part(
        "ints",
        n,
        16,
        |t: &mut Tape| {
            let mut v = int_bytes(gen_int(t));
            match t.below(6) {
                0 => v = crate::r#gen::atoms::pad_int(t, &v),
                1 => {
                    let n = 9 + t.below(32) as usize;
                    v = t.bytes(n);
                }
                2 => {
                    // exactly at a byte-width boundary
                    let k = 1 + t.below(10) as usize;
                    let mut b = vec![if t.flip() { 0x7f } else { 0x80 }];
                    b.extend(std::iter::repeat_n(if t.flip() { 0xff } else { 0 }, k - 1));
                    if t.flip() {
                        b.insert(0, if t.flip() { 0 } else { 0xff });
                    }
                    v = b;
                }
                _ => {}
            }
            IntCase { v }
        },
        test_int,
    );
    let n = r.n(60_000, 2_000_000);
    r.run_part(
        "histories",
        n,
        400,
        |t: &mut Tape| gen_case(t, false),
        |c| match run_case(c, &Cfg { contents: true, counters: false }) {
            Ok(o) => Verdict::pass(o.survivor_reread_after_restore).label(if o.survivor_reread_after_restore { "survivor re-read" } else { "no survivor" }),
            Err(v) => v,
        },
    );
    r.require_label("survivor re-read", 1000);
}
