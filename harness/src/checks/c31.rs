//! C31 — softfork guards are isolated and always yield nil.

use crate::checks::c08::gen_case;
use crate::checks::progcase::{BIG_BUDGET, ProgCase, run_fresh, run_hiding, safe_unlimited, show_case};
use crate::dag::{Dag, Interner};
use crate::engine::{Runner, Verdict};
use crate::r#gen::atoms::int_bytes;
use crate::r#gen::programs::{ProgCfg, gen_program, nest_guards};
use crate::tape::Tape;
use crate::util::*;
use serde::{Deserialize, Serialize};

pub fn test_diff(c: &ProgCase) -> Verdict {
    if !c.p.prog.is_valid() || !c.p.env.is_valid() {
        return Verdict::discard();
    }
    if c.flags & F_NO_UNKNOWN_OPS != 0 {
        return Verdict::discard();
    }
    let budget = if safe_unlimited(&c.p) { 0 } else { BIG_BUDGET };
    let mut i = Interner::new();
    let (Some(aware), Some(unaware)) = (run_fresh(&mut i, &c.p.prog, &c.p.env, c.flags, budget, None), run_hiding(&mut i, &c.p.prog, &c.p.env, c.flags, budget)) else {
        return Verdict::discard();
    };
    if aware.bad_exempt {
        return Verdict::fail(format!(
            "a guard was given the cost-exempt (pre-hard-fork) operator set although NEW_COST_MODEL is not set: its declared cost is then never compared with the cost it consumes\n {}",
            show_case(c)
        ));
    }
    if let Out::Ok { cost, val } = &aware.out {
        match &unaware.out {
            Out::Ok { cost: c2, val: v2 } => {
                if val != v2 {
                    return Verdict::fail(format!(
                        "a completed guard changed the program's value (it must yield nil like an unknown guard): aware {} unaware {}\n {}",
                        aware.out.show(&i),
                        unaware.out.show(&i),
                        show_case(c)
                    ));
                }
                if aware.counts != unaware.counts {
                    return Verdict::fail(format!(
                        "a completed guard left the allocator counts (atoms, pairs, heap) changed: aware {:?} vs guard-not-entered {:?}\n {}",
                        aware.counts,
                        unaware.counts,
                        show_case(c)
                    ));
                }
                if cost != c2 && !aware.exempt {
                    return Verdict::fail(format!(
                        "a completed non-exempt guard consumed a cost different from its declared cost: total {cost} vs {c2} when the guard is charged its declared cost\n {}",
                        show_case(c)
                    ));
                }
            }
            other => {
                return Verdict::fail(format!(
                    "aware run succeeds ({}), but with guards charged at their declared cost the run gives {}\n {}",
                    aware.out.show(&i),
                    other.show(&i),
                    show_case(c)
                ));
            }
        }
        return Verdict::pass(aware.known_guards > 0).label(if aware.exempt { "exempt guard" } else if aware.known_guards > 0 { "guard completed" } else { "no guard" });
    }
    Verdict::pass(false).label(format!("aware fails:{}", aware.out.kind()))
}

#[derive(Serialize, Deserialize, Clone, Debug)]
pub struct NestCase {
    pub inner: crate::r#gen::programs::GenProg,
    pub depth: u32,
    pub ext: u32,
    pub flags: u32,
    /// embed under (c GUARD (q . x))
    pub embed: bool,
}

/// exact cost 1 + 80 + c, value nil, and the depth limit
pub fn test_nest(c: &NestCase) -> Verdict {
    let pre = c.flags & !F_LIMIT_SOFTFORK;
    let Some(prog) = nest_guards(&c.inner.prog, &c.inner.env, c.depth, c.ext, pre) else {
        return Verdict::pass(false).label("inner fails");
    };
    // declared cost of the outermost guard
    let declared: u64 = {
        // (36 (q . c) ...): first quoted atom after the opcode
        let crate::dag::N::P(_, args) = &prog.n[prog.root() as usize] else { return Verdict::discard() };
        let crate::dag::N::P(first, _) = &prog.n[*args as usize] else { return Verdict::discard() };
        let crate::dag::N::P(_, v) = &prog.n[*first as usize] else { return Verdict::discard() };
        let crate::dag::N::A(b, _) = &prog.n[*v as usize] else { return Verdict::discard() };
        let mut x: u64 = 0;
        for y in b {
            x = (x << 8) | *y as u64;
        }
        x
    };
    let mut top = Dag::new();
    let g = top.append(&prog);
    if c.embed {
        let one = top.atom(&[1]);
        let seven = top.atom(&[7]);
        let qv = top.pair(one, seven);
        let o = top.atom(&[4]);
        let l = top.list(&[g, qv]);
        top.pair(o, l);
    }
    let mut env = Dag::new();
    env.nil();
    let mut i = Interner::new();
    let Some(r) = run_fresh(&mut i, &top, &env, c.flags, 0, None) else { return Verdict::discard() };
    let limit = c.flags & F_LIMIT_SOFTFORK != 0;
    let exempt = c.flags & F_NEW_COST != 0; // extensions 0/1 are grandfathered under the new model
    if limit && c.depth > 20 {
        return match &r.out {
            Out::Err { kind, .. } if kind == "SoftforkStackDepthExceeded" => Verdict::pass(true).label("depth>20 rejected"),
            other => Verdict::fail(format!("{} nested guards under LIMIT_SOFTFORK: expected the depth error, got {}", c.depth, other.show(&i))),
        };
    }
    match &r.out {
        Out::Ok { cost, val } => {
            let nil = i.atom(&[]);
            let want_val = if c.embed {
                let seven = i.atom(&[7]);
                i.pair(nil, seven)
            } else {
                nil
            };
            if *val != want_val {
                return Verdict::fail(format!("guard value is {} (depth {}, ext {}, flags {})", i.to_hex(*val, 100), c.depth, c.ext, flag_names(c.flags)));
            }
            // (softfork 4 quoted args): 1 + 4*20 + declared ; embedded: + 1 + 20 + 50
            let want = 1 + 80 + declared + if c.embed { 1 + 20 + 50 } else { 0 };
            if !exempt && *cost != want {
                return Verdict::fail(format!(
                    "{} nested guard(s), ext {}, flags {}: total cost {cost}, expected 1 + 80 + declared {declared}{} = {want}",
                    c.depth,
                    c.ext,
                    flag_names(c.flags),
                    if c.embed { " + 71" } else { "" }
                ));
            }
            Verdict::pass(true).label(if exempt { "nest ok (exempt)" } else { "nest ok exact cost" }).label(format!("depth{}", c.depth.min(22)))
        }
        other => Verdict::fail(format!(
            "{} nested guard(s) with exact declared costs (ext {}, flags {}) failed: {}",
            c.depth,
            c.ext,
            flag_names(c.flags),
            other.show(&i)
        )),
    }
}

/// Nested isolation: an outer guard whose body runs several inner guards with `strlen` probes in between. The counts
/// sampled at the probes (relative to the first probe) may not depend on what the inner guards' bodies allocate:
/// the same program is built once with allocating inner bodies and once with `(q . 42)` bodies (declared costs
/// recomputed for each), and the two sample sequences are compared.
#[derive(Serialize, Deserialize, Clone, Debug)]
pub struct IsoCase {
    pub ext_outer: u32,
    pub ext_inner: u32,
    pub inner: Vec<u8>,
    pub flags: u32,
}

struct ProbeSampler {
    inner: clvmr::chia_dialect::ChiaDialect,
    samples: std::cell::RefCell<Vec<(usize, usize, usize)>>,
}

impl clvmr::dialect::Dialect for ProbeSampler {
    fn quote_kw(&self) -> u32 {
        self.inner.quote_kw()
    }
    fn apply_kw(&self) -> u32 {
        self.inner.apply_kw()
    }
    fn softfork_kw(&self) -> u32 {
        self.inner.softfork_kw()
    }
    fn softfork_extension(&self, ext: u32) -> clvmr::dialect::OperatorSet {
        self.inner.softfork_extension(ext)
    }
    fn flags(&self) -> clvmr::chia_dialect::ClvmFlags {
        self.inner.flags()
    }
    fn gc_candidate(&self, a: &clvmr::allocator::Allocator, op: clvmr::NodePtr) -> bool {
        self.inner.gc_candidate(a, op)
    }
    fn op(&self, a: &mut clvmr::allocator::Allocator, op: clvmr::NodePtr, args: clvmr::NodePtr, max_cost: u64, ext: clvmr::dialect::OperatorSet) -> clvmr::reduction::Response {
        if a.atom_len(op) == 1 && a.atom(op).as_ref() == [13] {
            self.samples.borrow_mut().push((a.atom_count(), a.pair_count(), a.heap_size()));
        }
        self.inner.op(a, op, args, max_cost, ext)
    }
    fn allow_unknown_ops(&self) -> bool {
        self.inner.allow_unknown_ops()
    }
}

fn iso_program(c: &IsoCase, allocating: bool) -> Option<Dag> {
    let q = |d: &mut Dag, v: u32| {
        let one = d.atom(&[1]);
        d.pair(one, v)
    };
    let call = |d: &mut Dag, op: u8, args: &[u32]| {
        let o = d.atom(&[op]);
        let l = d.list(args);
        d.pair(o, l)
    };
    let mut nil_env = Dag::new();
    nil_env.nil();
    let pre = c.flags & !F_LIMIT_SOFTFORK;
    // BODY = (c PROBE (c G_1 (c PROBE (c G_2 ... (q . ())))))
    let mut body = Dag::new();
    let n0 = body.nil();
    let mut acc = q(&mut body, n0);
    for kind in &c.inner {
        let mut ib = Dag::new();
        if allocating {
            match kind % 3 {
                0 => {
                    let v = ib.atom(b"hello world");
                    let qv = q(&mut ib, v);
                    call(&mut ib, 11, &[qv]);
                }
                1 => {
                    let v1 = ib.atom(b"abcdefghij");
                    let v2 = ib.atom(b"0123456789");
                    let a1 = q(&mut ib, v1);
                    let a2 = q(&mut ib, v2);
                    call(&mut ib, 14, &[a1, a2]);
                }
                _ => {
                    let v1 = ib.atom(&[7]);
                    let v2 = ib.atom(&[8]);
                    let a1 = q(&mut ib, v1);
                    let a2 = q(&mut ib, v2);
                    call(&mut ib, 4, &[a1, a2]);
                }
            }
        } else {
            let v = ib.atom(&[42]);
            q(&mut ib, v);
        }
        let g = nest_guards(&ib, &nil_env, 1, c.ext_inner, pre)?;
        let gi = body.append(&g);
        let inner_acc = call(&mut body, 4, &[gi, acc]);
        let s = body.atom(b"xyz");
        let qs = q(&mut body, s);
        let probe = call(&mut body, 13, &[qs]);
        acc = call(&mut body, 4, &[probe, inner_acc]);
    }
    let _ = acc;
    nest_guards(&body, &nil_env, 1, c.ext_outer, pre)
}

pub fn test_iso(c: &IsoCase) -> Verdict {
    let run = |allocating: bool| -> Option<(Out, Vec<(usize, usize, usize)>)> {
        let prog = iso_program(c, allocating)?;
        let mut a = clvmr::allocator::Allocator::new();
        let p = crate::dag::build(&mut a, &prog).ok()?;
        let e = a.nil();
        let d = ProbeSampler { inner: clvmr::chia_dialect::ChiaDialect::new(crate::util::flags(c.flags)), samples: Default::default() };
        let r = crate::engine::guard(|| clvmr::run_program::run_program(&mut a, &d, p, e, 0));
        let mut i = Interner::new();
        let out = crate::util::to_out(&a, &mut i, r);
        Some((out, d.samples.into_inner()))
    };
    let (Some((oa, sa)), Some((ob, sb))) = (run(true), run(false)) else { return Verdict::discard() };
    if !oa.is_ok() || !ob.is_ok() {
        // the inner bodies are valid programs and the costs are exact: both variants must complete
        return Verdict::fail(format!("a nest of guards with exact declared costs did not complete: allocating bodies {:?}, constant bodies {:?}\n case {c:?}", oa.kind(), ob.kind()));
    }
    if sa.len() != sb.len() || sa.len() != c.inner.len() {
        return Verdict::fail(format!("probe count differs: {} vs {} (expected {})\n case {c:?}", sa.len(), sb.len(), c.inner.len()));
    }
    let rel = |s: &[(usize, usize, usize)]| -> Vec<(i64, i64, i64)> { s.iter().map(|x| (x.0 as i64 - s[0].0 as i64, x.1 as i64 - s[0].1 as i64, x.2 as i64 - s[0].2 as i64)).collect() };
    if rel(&sa) != rel(&sb) {
        return Verdict::fail(format!(
            "inside an outer guard, the allocator counts observed between inner guards depend on what the inner guards allocated (they must be restored at each inner exit): relative (atoms,pairs,heap) at the probes with allocating bodies {:?}, with constant bodies {:?}\n case {c:?}",
            rel(&sa),
            rel(&sb)
        ));
    }
    Verdict::pass(c.inner.len() >= 2).label("nested isolation ok")
}

pub fn run(r: &mut Runner) {
    r.rule = "part diff: the C08 generator under every cost model (non-strict); the aware run is compared with a dialect that never enters a guard (so every guard yields nil at its declared cost and allocates nothing): equal value, equal allocator counts, equal cost unless a grandfathered guard was entered. \
        part nest: d = 1..25 nested guards around a generated successful inner program with inside-out computed costs: value nil, total cost exactly 1 + 80 + declared (also embedded under c), with LIMIT_SOFTFORK 20 deep succeed and 21+ fail with the depth error, without the flag deeper nests succeed. \
        Non-trivial = a known-extension guard completed; distinct by case."
        .into();
    let cfg = ProgCfg { mutate_pct: 10, raw_pct: 2, reprs: false, ..Default::default() };
    let n = r.n(15_000, 400_000);
    r.run_part("diff", n, 900, |t: &mut Tape| gen_case(t, &cfg, true), test_diff);
    let n = r.n(4_000, 100_000);
    let icfg = ProgCfg { mutate_pct: 0, raw_pct: 0, guards: false, max_depth: 3, ..Default::default() };
    r.run_part(
        "nest",
        n,
        400,
        |t: &mut Tape| {
            let mut flags = 0;
            if t.flip() {
                flags |= F_LIMIT_SOFTFORK;
            }
            if t.chance(1, 3) {
                flags |= F_NEW_COST;
            }
            if t.chance(1, 4) {
                flags |= F_ENABLE_GC;
            }
            let mut pc = icfg;
            pc.prerun_flags = flags;
            let inner = if t.flip() {
                gen_program(t, &pc)
            } else {
                let mut d = Dag::new();
                let one = d.atom(&[1]);
                let v = d.atom(&int_bytes(t.below(100000) as i128));
                d.pair(one, v);
                let mut e = Dag::new();
                e.nil();
                crate::r#gen::programs::GenProg { prog: d, env: e, info: Default::default() }
            };
            let depth = match t.below(4) {
                0 => 1 + t.below(3),
                1 => 19 + t.below(4),
                2 => 20 + t.below(2),
                _ => 1 + t.below(25),
            };
            NestCase { inner, depth, ext: t.below(2), flags, embed: t.flip() }
        },
        test_nest,
    );
    let n = r.n(300, 5_000);
    r.run_part(
        "nested-isolation",
        n,
        20,
        |t: &mut Tape| {
            let k = 2 + t.below(3) as usize;
            let mut flags = 0;
            if t.flip() {
                flags |= F_ENABLE_GC;
            }
            if t.chance(1, 3) {
                flags |= F_LIMIT_SOFTFORK;
            }
            IsoCase { ext_outer: t.below(2), ext_inner: t.below(2), inner: (0..k).map(|_| t.below(3) as u8).collect(), flags }
        },
        test_iso,
    );
    r.require_label("nested isolation ok", 1000);
    for l in ["guard completed", "exempt guard", "depth>20 rejected", "depth20", "depth21", "nest ok exact cost"] {
        r.require_label(l, 50);
    }
}
