//! C25 — the interpreter is total: no panics, no internal errors.

use crate::checks::progcase::{BIG_BUDGET, ProgCase, gen_prog_case, run_fresh, safe_unlimited, show_case};
use crate::dag::{Dag, Interner, build};
use crate::engine::{Runner, Verdict, guard};
use crate::r#gen::programs::ProgCfg;
use crate::r#gen::trees::{TreeCfg, gen_tree};
use crate::tape::Tape;
use crate::util::{Out, err_kind, flag_names, flags};
use clvmr::allocator::{Allocator, NodePtr};
use clvmr::chia_dialect::ClvmFlags;
use clvmr::reduction::Response;
use serde::{Deserialize, Serialize};

pub fn test_prog(c: &ProgCase) -> Verdict {
    if !c.p.prog.is_valid() || !c.p.env.is_valid() {
        return Verdict::discard();
    }
    let mut i = Interner::new();
    let mut labels = Vec::new();
    let mut ops = 0;
    for (k, b) in c.budgets.iter().enumerate() {
        // budgets up to 2*10^8; 0 (unlimited) only for programs that cannot loop
        let budget = if k == 0 && safe_unlimited(&c.p) && b % 3 == 0 { 0 } else { 1 + b % (BIG_BUDGET / 2) };
        // the Python API truncates unknown flag bits; here arbitrary words go through from_bits_truncate too
        let Some(r) = run_fresh(&mut i, &c.p.prog, &c.p.env, c.flags, budget, None) else {
            return Verdict::discard();
        };
        ops = ops.max(r.ops);
        match &r.out {
            Out::Panic(m) => return Verdict::fail(format!("run_program panicked: {m}\n budget {budget}\n {}", show_case(c))),
            Out::Err { kind, msg } if kind == "InternalError" => {
                return Verdict::fail(format!("run_program reported an internal error: {msg}\n budget {budget}\n {}", show_case(c)));
            }
            o => labels.push(format!("outcome:{}", o.kind())),
        }
    }
    labels.sort();
    labels.dedup();
    Verdict::pass(ops >= 2).with_labels(labels)
}

#[derive(Serialize, Deserialize, Clone, Debug)]
pub struct OpCase {
    pub op: String,
    pub args: Dag,
    pub flags: u32,
    pub max_cost: u64,
}

type OpFn = fn(&mut Allocator, NodePtr, u64, ClvmFlags) -> Response;

pub fn op_table() -> Vec<(&'static str, OpFn)> {
    use clvmr::bls_ops::*;
    use clvmr::core_ops::*;
    use clvmr::keccak256_ops::op_keccak256;
    use clvmr::more_ops::*;
    use clvmr::secp_ops::*;
    use clvmr::sha_tree_op::op_sha256_tree;
    vec![
        ("if", op_if as OpFn),
        ("cons", op_cons),
        ("first", op_first),
        ("rest", op_rest),
        ("listp", op_listp),
        ("raise", op_raise),
        ("eq", op_eq),
        ("gr_bytes", op_gr_bytes),
        ("sha256", op_sha256),
        ("substr", op_substr),
        ("strlen", op_strlen),
        ("concat", op_concat),
        ("add", op_add),
        ("subtract", op_subtract),
        ("multiply", op_multiply),
        ("div", op_div),
        ("divmod", op_divmod),
        ("gr", op_gr),
        ("ash", op_ash),
        ("lsh", op_lsh),
        ("logand", op_logand),
        ("logior", op_logior),
        ("logxor", op_logxor),
        ("lognot", op_lognot),
        ("point_add", op_point_add),
        ("pubkey_for_exp", op_pubkey_for_exp),
        ("not", op_not),
        ("any", op_any),
        ("all", op_all),
        ("coinid", op_coinid),
        ("g1_subtract", op_bls_g1_subtract),
        ("g1_multiply", op_bls_g1_multiply),
        ("g1_negate", op_bls_g1_negate),
        ("g2_add", op_bls_g2_add),
        ("g2_subtract", op_bls_g2_subtract),
        ("g2_multiply", op_bls_g2_multiply),
        ("g2_negate", op_bls_g2_negate),
        ("g1_map", op_bls_map_to_g1),
        ("g2_map", op_bls_map_to_g2),
        ("pairing_identity", op_bls_pairing_identity),
        ("bls_verify", op_bls_verify),
        ("modpow", op_modpow),
        ("mod", op_mod),
        ("keccak256", op_keccak256),
        ("sha256tree", op_sha256_tree),
        ("secp256k1_verify", op_secp256k1_verify),
        ("secp256r1_verify", op_secp256r1_verify),
    ]
}

pub fn test_op(c: &OpCase) -> Verdict {
    if !c.args.is_valid() {
        return Verdict::discard();
    }
    let Some((_, f)) = op_table().into_iter().find(|(n, _)| *n == c.op) else {
        return Verdict::discard();
    };
    let r = guard(|| {
        let mut a = Allocator::new();
        let args = build(&mut a, &c.args).expect("build");
        f(&mut a, args, c.max_cost, flags(c.flags)).map(|r| r.0).map_err(|e| (err_kind(&e), e.to_string()))
    });
    match r {
        Err(p) => Verdict::fail(format!("operator {} panicked: {p}\n args {} flags {} max_cost {}", c.op, crate::dag::dag_hex(&c.args, 600), flag_names(c.flags), c.max_cost)),
        Ok(Err((k, m))) if k == "InternalError" => Verdict::fail(format!("operator {} reported an internal error: {m}\n args {} flags {}", c.op, crate::dag::dag_hex(&c.args, 600), flag_names(c.flags))),
        Ok(Err((k, _))) => Verdict::pass(true).label(format!("err:{k}")).label(format!("op:{}", c.op)),
        Ok(Ok(_)) => Verdict::pass(true).label("ok").label(format!("op:{}", c.op)),
    }
}

pub fn gen_op_case(t: &mut Tape) -> OpCase {
    let table = op_table();
    let op = table[t.below_usize(table.len())].0.to_string();
    // arbitrary argument trees: lists of atoms/trees, improper lists, bare atoms
    let cfg = TreeCfg { max_nodes: 12, max_atom: 100, reprs: true, dup_atoms: 20, deep: 0 };
    let args = match t.weighted(&[6, 2, 1]) {
        0 => {
            let mut d = Dag::new();
            let n = t.below(6) as usize;
            let mut items = Vec::new();
            for _ in 0..n {
                let it = match t.weighted(&[6, 2, 1, 1]) {
                    0 => {
                        let b = crate::r#gen::atoms::gen_atom(t, 100);
                        let r = crate::r#gen::atoms::gen_repr(t);
                        d.atom_r(&b, r)
                    }
                    1 => {
                        let sub = gen_tree(t, &TreeCfg { max_nodes: 6, max_atom: 10, ..Default::default() });
                        d.append(&sub)
                    }
                    2 => {
                        let b = crate::r#gen::programs::valid_g1(t.below_usize(6));
                        d.atom(&b)
                    }
                    _ => {
                        let b = crate::r#gen::programs::valid_g2(t.below_usize(5));
                        d.atom(&b)
                    }
                };
                items.push(it);
            }
            // the same node passed in two argument positions (what two equal environment paths produce)
            if items.len() >= 2 && t.chance(1, 5) {
                let k = t.below_usize(items.len());
                let j = t.below_usize(items.len());
                items[k] = items[j];
            }
            let term = if t.chance(1, 8) { d.atom(&[7]) } else { d.nil() };
            d.list_term(&items, term);
            d
        }
        1 => gen_tree(t, &cfg),
        _ => {
            let mut d = Dag::new();
            let b = crate::r#gen::atoms::gen_atom(t, 40);
            d.atom(&b);
            d
        }
    };
    let max_cost = match t.below(4) {
        0 => u64::MAX,
        1 => t.below(2000) as u64,
        2 => t.below(5_000_000) as u64,
        _ => t.u64(),
    };
    OpCase { op, args, flags: t.word(), max_cost }
}

/// `(op P P ...)` with the same environment path in several argument positions: the operator receives the identical
/// node (atom or pair) more than once
pub fn gen_same_path(t: &mut Tape) -> ProgCase {
    let env = gen_tree(t, &TreeCfg { max_nodes: 10, max_atom: 40, reprs: true, dup_atoms: 20, deep: 0 });
    let mut d = Dag::new();
    let path: Vec<u8> = match t.below(6) {
        0 => vec![1],
        1 => vec![2],
        2 => vec![3],
        3 => vec![5],
        4 => vec![6],
        _ => vec![1 + t.below(15) as u8],
    };
    let table = op_table();
    let opname = table[t.below_usize(table.len())].0;
    let code = crate::checks::c10::opcode(opname).unwrap_or(vec![9]);
    let n = 1 + t.below_usize(3);
    let mut items = Vec::new();
    for k in 0..n {
        if k > 0 && t.chance(1, 6) {
            let b = crate::r#gen::atoms::gen_atom(t, 20);
            let one = d.atom(&[1]);
            let a = d.atom(&b);
            items.push(d.pair(one, a));
        } else {
            items.push(d.atom(&path));
        }
    }
    let l = d.list(&items);
    let o = d.atom(&code);
    d.pair(o, l);
    ProgCase { p: crate::r#gen::programs::GenProg { prog: d, env, info: Default::default() }, flags: t.word(), budgets: vec![t.u64()] }
}

pub fn run(r: &mut Runner) {
    r.rule = "part programs: well-typed, near-valid (mutation layer) and fully random programs x random 32-bit flag words x budgets <= 2*10^8 (0 only for programs that cannot loop); non-trivial = at least two operator applications were executed; distinct by case. \
        part operators: every operator function of ChiaDialect called directly on arbitrary argument trees (lists of atoms in every representation, trees, valid points, improper lists, bare atoms) x random flag words x budgets. \
        part same-path: (op P P ..) for every operator with one environment path repeated, so the identical node (atom or pair) reaches several argument positions. Oracle: validity - the call returns, does not panic and never yields EvalErr::InternalError."
        .into();
    let cfg = ProgCfg { mutate_pct: 40, raw_pct: 15, reprs: true, ..Default::default() };
    let n = r.n(40_000, 2_000_000);
    r.run_part(
        "programs",
        n,
        600,
        |t: &mut Tape| {
            let mut c = gen_prog_case(t, &cfg);
            if t.chance(1, 3) {
                c.flags = t.word(); // arbitrary word incl. undefined bits
            }
            c
        },
        test_prog,
    );
    let n = r.n(60_000, 3_000_000);
    r.run_part("operators", n, 200, gen_op_case, test_op);
    let n = r.n(20_000, 500_000);
    r.run_part("same-path", n, 120, gen_same_path, test_prog);
}
