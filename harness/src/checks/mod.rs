use crate::engine::Runner;

pub mod c15;
pub mod c16;
pub mod c21;
pub mod c29;

pub type CheckFn = fn(&mut Runner);

pub fn registry() -> Vec<(&'static str, CheckFn)> {
    vec![
        ("C15", c15::run as CheckFn),
        ("C16", c16::run as CheckFn),
        ("C21", c21::run as CheckFn),
        ("C29", c29::run as CheckFn),
    ]
}
