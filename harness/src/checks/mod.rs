use crate::engine::Runner;

pub mod c21;

pub type CheckFn = fn(&mut Runner);

pub fn registry() -> Vec<(&'static str, CheckFn)> {
    vec![("C21", c21::run as CheckFn)]
}
