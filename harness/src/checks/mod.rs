use crate::engine::Runner;

pub mod alloc_sm;
pub mod c01;
pub mod c02;
pub mod c03;
pub mod c04;
pub mod c05;
pub mod c06;
pub mod c07;
pub mod c08;
pub mod c09;
pub mod c10;
pub mod c11;
pub mod c12;
pub mod c13;
pub mod c14;
pub mod c15;
pub mod c16;
pub mod c17;
pub mod c18;
pub mod c19;
pub mod c20;
pub mod c21;
pub mod c22;
pub mod c23;
pub mod c24;
pub mod c25;
pub mod c29;
pub mod c30;
pub mod c31;
pub mod c32;
pub mod progcase;

pub type CheckFn = fn(&mut Runner);

pub fn registry() -> Vec<(&'static str, CheckFn)> {
    vec![
        ("C01", c01::run as CheckFn),
        ("C02", c02::run as CheckFn),
        ("C03", c03::run as CheckFn),
        ("C04", c04::run as CheckFn),
        ("C05", c05::run as CheckFn),
        ("C06", c06::run as CheckFn),
        ("C07", c07::run as CheckFn),
        ("C08", c08::run as CheckFn),
        ("C09", c09::run as CheckFn),
        ("C10", c10::run as CheckFn),
        ("C11", c11::run as CheckFn),
        ("C12", c12::run as CheckFn),
        ("C13", c13::run as CheckFn),
        ("C14", c14::run as CheckFn),
        ("C15", c15::run as CheckFn),
        ("C16", c16::run as CheckFn),
        ("C17", c17::run as CheckFn),
        ("C18", c18::run as CheckFn),
        ("C19", c19::run as CheckFn),
        ("C20", c20::run as CheckFn),
        ("C21", c21::run as CheckFn),
        ("C22", c22::run as CheckFn),
        ("C23", c23::run as CheckFn),
        ("C24", c24::run as CheckFn),
        ("C25", c25::run as CheckFn),
        ("C29", c29::run as CheckFn),
        ("C30", c30::run as CheckFn),
        ("C31", c31::run as CheckFn),
        ("C32", c32::run as CheckFn),
    ]
}
