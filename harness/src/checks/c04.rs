//! C04 — heap reclamation (ENABLE_GC) is unobservable.

use crate::checks::progcase::{BIG_BUDGET, ProgCase, gen_prog_case, safe_unlimited, show_case};
use crate::dag::{Interner, build};
use crate::engine::{Runner, Verdict, guard};
use crate::r#gen::programs::ProgCfg;
use crate::tape::Tape;
use crate::util::{F_ENABLE_GC, Out, flags, to_out};
use clvmr::allocator::Allocator;
use clvmr::chia_dialect::ChiaDialect;
use clvmr::run_program::run_program;
use serde::{Deserialize, Serialize};

#[derive(Serialize, Deserialize, Clone, Debug)]
pub struct Case {
    pub c: ProgCase,
    pub heap_limit: Option<u32>,
}

struct R {
    out: Out,
    counts: (usize, usize, usize),
    allocated: (usize, usize, usize),
}

fn run_one(i: &mut Interner, c: &Case, bits: u32, budget: u64) -> Option<R> {
    let mut a = match c.heap_limit {
        Some(l) => Allocator::new_limited(l as usize),
        None => Allocator::new(),
    };
    let p = build(&mut a, &c.c.p.prog).ok()?;
    let e = build(&mut a, &c.c.p.env).ok()?;
    let d = ChiaDialect::new(flags(bits));
    let r = guard(|| run_program(&mut a, &d, p, e, budget));
    let out = to_out(&a, i, r);
    Some(R {
        out,
        counts: (a.atom_count(), a.pair_count(), a.heap_size()),
        allocated: (a.allocated_atom_count(), a.allocated_pair_count(), a.allocated_heap_size()),
    })
}

pub fn test_case(c: &Case) -> Verdict {
    if !c.c.p.prog.is_valid() || !c.c.p.env.is_valid() {
        return Verdict::discard();
    }
    let base = c.c.flags & !F_ENABLE_GC;
    let mut i = Interner::new();
    let mut nontrivial = false;
    let mut labels = Vec::new();
    let mut budgets: Vec<u64> = vec![if safe_unlimited(&c.c.p) { 0 } else { BIG_BUDGET }];
    for b in c.c.budgets.iter().take(2) {
        budgets.push(1 + b % 3_000_000);
    }
    for budget in budgets {
        let (Some(plain), Some(gc)) = (run_one(&mut i, c, base, budget), run_one(&mut i, c, base | F_ENABLE_GC, budget)) else {
            return Verdict::discard();
        };
        if let Out::Panic(m) = &gc.out {
            return Verdict::fail(format!("panic with ENABLE_GC: {m}\n budget {budget} heap_limit {:?}\n {}", c.heap_limit, show_case(&c.c)));
        }
        if plain.out != gc.out {
            return Verdict::fail(format!(
                "ENABLE_GC changes the outcome (budget {budget}, heap limit {:?}):\n without: {}\n with:    {}\n {}",
                c.heap_limit,
                plain.out.show(&i),
                gc.out.show(&i),
                show_case(&c.c)
            ));
        }
        if plain.counts != gc.counts {
            return Verdict::fail(format!(
                "ENABLE_GC changes the reported (atom_count, pair_count, heap_size) (budget {budget}, heap limit {:?}): without {:?}, with {:?}; outcome {}\n {}",
                c.heap_limit,
                plain.counts,
                gc.counts,
                plain.out.show(&i),
                show_case(&c.c)
            ));
        }
        if gc.allocated.0 < plain.allocated.0 || gc.allocated.2 < plain.allocated.2 || gc.allocated.1 < plain.allocated.1 {
            nontrivial = true;
            labels.push(format!("reclaimed:{}", plain.out.kind()));
            if let Out::Ok { val, .. } = &plain.out {
                let kind = match &i.nodes[*val as usize] {
                    crate::dag::INode::P(..) => "pair",
                    crate::dag::INode::A(b) if b.is_empty() => "nil",
                    crate::dag::INode::A(b) if b.len() <= 4 => "small atom",
                    crate::dag::INode::A(b) if b.len() <= 48 => "atom<=48",
                    _ => "atom>48",
                };
                labels.push(format!("result:{kind}"));
            }
        }
    }
    labels.sort();
    labels.dedup();
    Verdict::pass(nontrivial).with_labels(labels)
}

/// programs built so that a GC-candidate operator's argument evaluation allocates
/// well over 1 KiB and the result is of a chosen kind
pub fn gen_gc_shaped(t: &mut Tape) -> crate::r#gen::programs::GenProg {
    use crate::dag::Dag;
    use crate::r#gen::atoms::int_bytes;
    let mut env = Dag::new();
    let n1 = 300 + t.below(3000) as usize;
    let n2 = 300 + t.below(3000) as usize;
    let b1 = t.bytes(n1);
    let b2 = t.bytes(n2);
    let r1 = crate::r#gen::atoms::gen_repr(t);
    let r2 = crate::r#gen::atoms::gen_repr(t);
    let e1 = env.atom_r(&b1, r1);
    let e2 = env.atom_r(&b2, r2);
    let sm = env.atom(&int_bytes(t.below(1000) as i128));
    env.list(&[e1, e2, sm]);
    // slots: 2, 5, 11
    let mut d = Dag::new();
    fn call(d: &mut Dag, op: u8, args: &[u32]) -> u32 {
        let o = d.atom(&[op]);
        let l = d.list(args);
        d.pair(o, l)
    }
    fn q(d: &mut Dag, v: u32) -> u32 {
        let one = d.atom(&[1]);
        d.pair(one, v)
    }
    let p2 = d.atom(&[2]);
    let p5 = d.atom(&[5]);
    let p11 = d.atom(&[11]);
    // a heavy allocation: nested concats / hashes of the big atoms
    let heavy = {
        let c1 = call(&mut d, 14, &[p2, p5]);
        match t.below(4) {
            0 => c1,
            1 => call(&mut d, 14, &[c1, p2, c1]),
            2 => {
                let h = call(&mut d, 11, &[c1]);
                call(&mut d, 14, &[c1, h])
            }
            _ => {
                // many small allocations: a list of pairs (>= 128 pairs)
                let mut l = d.atom(&[]);
                let cq = q(&mut d, l);
                l = cq;
                for _ in 0..(130 + t.below(40)) {
                    l = call(&mut d, 4, &[p11, l]);
                }
                l
            }
        }
    };
    let kind = t.below(9);
    match kind {
        0 => {
            call(&mut d, 13, &[heavy]); // strlen -> small int
        }
        1 => {
            call(&mut d, 11, &[heavy, p11]); // sha256 -> 32 byte atom
        }
        2 => {
            call(&mut d, 32, &[heavy]); // not -> nil
        }
        3 => {
            call(&mut d, 9, &[heavy, p2]); // = -> nil/one
        }
        4 => {
            // apply returning a substr of an old environment atom (old bytes, new node)
            let s = d.atom(&int_bytes(1 + t.below(20) as i128));
            let sq = q(&mut d, s);
            let e = d.atom(&int_bytes(30 + t.below(100) as i128));
            let eq = q(&mut d, e);
            let envp = d.atom(&[if t.flip() { 5 } else { 11 }]); // env shifted by one through (c heavy 1)
            let body = call(&mut d, 12, &[envp, sq, eq]);
            let qb = q(&mut d, body);
            let one = d.atom(&[1]);
            let newenv = call(&mut d, 4, &[heavy, one]);
            call(&mut d, 2, &[qb, newenv]);
        }
        5 => {
            // apply returning a fresh pair
            let body = {
                let a2 = d.atom(&[5]);
                let a3 = d.atom(&[11]);
                call(&mut d, 4, &[a2, a3])
            };
            let qb = q(&mut d, body);
            let one = d.atom(&[1]);
            let newenv = call(&mut d, 4, &[heavy, one]);
            call(&mut d, 2, &[qb, newenv]);
        }
        6 => {
            // logior of big values -> atom > 48 bytes
            call(&mut d, 25, &[heavy, p2]);
        }
        7 => {
            // apply returning a fresh small atom <= 48 bytes created inside
            let body = {
                let a2 = d.atom(&[11]);
                let a3 = d.atom(&[23]);
                call(&mut d, 16, &[a2, a3, a3])
            };
            let qb = q(&mut d, body);
            let one = d.atom(&[1]);
            let newenv = call(&mut d, 4, &[heavy, one]);
            call(&mut d, 2, &[qb, newenv]);
        }
        _ => {
            // nested: outer candidate over inner candidates
            let inner1 = call(&mut d, 13, &[heavy]);
            let inner2 = call(&mut d, 11, &[heavy]);
            call(&mut d, 16, &[inner1, inner2, p11]);
        }
    }
    crate::r#gen::programs::GenProg { prog: d, env, info: Default::default() }
}

fn trial_heap(p: &crate::r#gen::programs::GenProg) -> usize {
    let mut a = Allocator::new();
    let _ = build(&mut a, &p.prog);
    let _ = build(&mut a, &p.env);
    a.heap_size()
}

pub fn run(r: &mut Runner) {
    r.rule = "programs whose operator arguments allocate >= 1 KiB (environments with 300..4096-byte atoms; concat/sha256/arithmetic/substr over them, nested applies) plus ordinary generated programs; every base flag set; unlimited and small (1..64 KiB) heaps; budgets. \
        Each case is run with F and F|ENABLE_GC in identically built fresh allocators. Non-trivial = the GC run really reclaimed memory (allocated atom/pair/heap size smaller than without GC while the reported counts are equal); distinct by case."
        .into();
    let cfg = ProgCfg { mutate_pct: 10, raw_pct: 2, reprs: true, env_big_pct: 60, max_depth: 5, ..Default::default() };
    let n = r.n(20_000, 1_000_000);
    r.run_part(
        "programs",
        n,
        600,
        |t: &mut Tape| {
            let mut c = gen_prog_case(t, &cfg);
            if t.chance(1, 2) {
                c.p = gen_gc_shaped(t);
            }
            let heap_limit = match t.below(4) {
                0 => Some((trial_heap(&c.p) + t.below(8000) as usize) as u32),
                1 => Some((trial_heap(&c.p) + t.below(60000) as usize) as u32),
                _ => None,
            };
            Case { c, heap_limit }
        },
        test_case,
    );
    for l in ["result:nil", "result:small atom", "result:atom<=48", "result:atom>48", "result:pair", "reclaimed:OutOfMemory"] {
        r.require_label(l, 20);
    }
}
