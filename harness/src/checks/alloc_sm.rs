//! Model-based state machine over the public Allocator API, shared by
//! C12 (accounting), C13 (limits) and C14 (immutability / canonical integers).

use crate::engine::{Verdict, guard};
use crate::r#gen::atoms::{gen_atom, gen_int, int_bytes};
use crate::tape::Tape;
use crate::util::{err_kind, hexbytes};
use chia_bls::{G1Element, G2Element};
use clvmr::allocator::{Allocator, Checkpoint, MaybeRestore, NodePtr, ObjectType, SExp, TransparentCheckpoint};
use clvmr::number::{Malachite, Number};
use serde::{Deserialize, Serialize};

pub const MAX_ATOMS: u64 = 62_500_000;
pub const MAX_PAIRS: u64 = 62_500_000;

#[derive(Serialize, Deserialize, Clone, Debug)]
pub enum Op {
    Atom(#[serde(with = "hexbytes")] Vec<u8>),
    Small(u32),
    U64(u64),
    I64(i64),
    /// integer given by its (possibly non-minimal) signed big-endian bytes
    Number(#[serde(with = "hexbytes")] Vec<u8>),
    Malachite(#[serde(with = "hexbytes")] Vec<u8>),
    Pair(u16, u16),
    Substr(u16, u32, u32),
    /// concat of the given atom references; `delta` is added to the true size
    Concat(Vec<u16>, i8),
    G1(u8),
    G2(u8),
    GhostAtom(u32),
    GhostPair(u32),
    Checkpoint,
    Restore(u16),
    TCheckpoint,
    TRestore(u16),
    MaybeRestore(u16, u16),
}

#[derive(Serialize, Deserialize, Clone, Debug)]
pub struct Case {
    /// heap limit (None = Allocator::new())
    pub heap_limit: Option<u32>,
    /// distance of the pre-loaded atom / pair counters from their caps (None = no preload)
    pub atoms_room: Option<u32>,
    pub pairs_room: Option<u32>,
    pub ops: Vec<Op>,
}

#[derive(Clone)]
enum MNode {
    A(Vec<u8>),
    P(usize, usize),
}

struct Live {
    node: MNode,
    ptr: NodePtr,
    alive: bool,
    /// index of the model node whose storage this NodePtr denotes (a call may
    /// hand back an existing NodePtr, e.g. new_concat of a single part)
    birth: usize,
}

fn birth_of(nodes: &[Live], ptr: NodePtr) -> usize {
    nodes
        .iter()
        .position(|n| n.alive && n.ptr == ptr)
        .map(|i| nodes[i].birth)
        .unwrap_or(nodes.len())
}

enum Cp {
    Full(Checkpoint, usize, (u64, u64, u64)),
    Transparent(TransparentCheckpoint, usize),
}

#[derive(Default)]
pub struct Obs {
    pub calls: usize,
    pub full_restore_after_alloc: bool,
    pub transparent_restore_after_alloc: bool,
    pub value_restore: bool,
    pub inline_atom: bool,
    pub substr: bool,
    pub concat: bool,
    pub cap_failures: usize,
    pub ok_at_cap: usize,
    pub survivor_reread_after_restore: bool,
    pub labels: Vec<String>,
}

fn g1(k: u8) -> G1Element {
    let mut b = [0u8; 32];
    b[31] = k;
    G1Element::from_integer(&b)
}

fn g2(k: u8) -> G2Element {
    let mut p = G2Element::default();
    if k > 0 {
        // k * generator via repeated addition of hash points would be slow; use scalar multiply
        let mut sk = [0u8; 32];
        sk[31] = k;
        p = chia_bls::hash_to_g2(&[k]);
        let _ = sk;
    }
    p
}

/// hand-written canonical-small-int predicate: Some(v) iff the bytes are the
/// minimal two's-complement encoding of 0 <= v < 2^26
pub fn small_value(b: &[u8]) -> Option<u32> {
    if b.is_empty() {
        return Some(0);
    }
    if b.len() > 4 || b[0] & 0x80 != 0 {
        return None;
    }
    let mut v: u64 = 0;
    for x in b {
        v = (v << 8) | *x as u64;
    }
    if v >= (1 << 26) {
        return None;
    }
    if int_bytes(v as i128) == b { Some(v as u32) } else { None }
}

/// strip redundant sign-extension bytes (hand-written), 0 -> empty
pub fn minimal(b: &[u8]) -> Vec<u8> {
    let mut s = b;
    while s.len() > 1 && ((s[0] == 0 && s[1] & 0x80 == 0) || (s[0] == 0xff && s[1] & 0x80 != 0)) {
        s = &s[1..];
    }
    if s == [0] {
        return vec![];
    }
    s.to_vec()
}

/// minimal two's-complement bytes of a BigInt from its sign and magnitude (hand-written)
pub fn bigint_min_bytes(neg: bool, mag_be: &[u8]) -> Vec<u8> {
    let mut m: Vec<u8> = mag_be.iter().copied().skip_while(|x| *x == 0).collect();
    if m.is_empty() {
        return vec![];
    }
    if !neg {
        if m[0] & 0x80 != 0 {
            m.insert(0, 0);
        }
        m
    } else {
        // two's complement of the magnitude with one extra leading zero byte
        m.insert(0, 0);
        for x in m.iter_mut() {
            *x = !*x;
        }
        for x in m.iter_mut().rev() {
            let (v, c) = x.overflowing_add(1);
            *x = v;
            if !c {
                break;
            }
        }
        minimal(&m)
    }
}

fn number_bytes(n: &Number) -> Vec<u8> {
    let (s, mag) = n.to_bytes_be();
    bigint_min_bytes(s == num_bigint::Sign::Minus, &mag)
}

fn malachite_bytes(n: &Malachite) -> Vec<u8> {
    let (s, mag) = n.to_bytes_be();
    bigint_min_bytes(s == malachite_bigint::Sign::Minus, &mag)
}

pub struct Cfg {
    /// compare node contents after every call (C14)
    pub contents: bool,
    /// compare counters after every call (C12/C13)
    pub counters: bool,
}

/// Runs the history. Err = a property violation (message, optional signature).
pub fn run_history(c: &Case, cfg: &Cfg) -> Result<Obs, (String, Option<String>)> {
    let mut a = match c.heap_limit {
        Some(l) => Allocator::new_limited(l as usize),
        None => Allocator::new(),
    };
    let limit: u64 = c.heap_limit.map(|l| l as u64).unwrap_or(u32::MAX as u64);
    // model counters: "as if every atom were a separately stored byte string"
    let (mut atoms, mut pairs, mut heap): (u64, u64, u64) = (2, 0, 1);
    if let Some(room) = c.atoms_room {
        let n = MAX_ATOMS - atoms - room as u64;
        a.add_ghost_atom(n as usize).map_err(|e| (format!("preload atoms: {e}"), None))?;
        atoms += n;
    }
    if let Some(room) = c.pairs_room {
        let n = MAX_PAIRS - room as u64;
        a.add_ghost_pair(n as usize).map_err(|e| (format!("preload pairs: {e}"), None))?;
        pairs += n;
    }
    let mut nodes: Vec<Live> = Vec::new();
    let mut cps: Vec<Cp> = Vec::new();
    let mut obs = Obs::default();
    let mut allocs_since_cp = 0usize;
    // (node index, restored-after-creation flag) for C14's non-triviality
    let mut restored_over: Vec<bool> = Vec::new();
    let mut known_f5: Option<String> = None;

    let live_idx = |nodes: &Vec<Live>, r: u16, want_atom: Option<bool>| -> Option<usize> {
        let cand: Vec<usize> = nodes
            .iter()
            .enumerate()
            .filter(|(_, n)| {
                n.alive
                    && match want_atom {
                        None => true,
                        Some(true) => matches!(n.node, MNode::A(_)),
                        Some(false) => matches!(n.node, MNode::P(..)),
                    }
            })
            .map(|(i, _)| i)
            .collect();
        if cand.is_empty() { None } else { Some(cand[(r as usize * cand.len()) >> 16]) }
    };

    for (step, op) in c.ops.iter().enumerate() {
        obs.calls += 1;
        let before = (a.atom_count() as u64, a.pair_count() as u64, a.heap_size() as u64);
        // expected counters after the call if it succeeds; None = no allocation-style expectation
        enum Exp {
            /// atom creation adding `heap` bytes
            NewAtom { bytes: Vec<u8>, heap: u64 },
            NewPair(usize, usize),
            Ghost { atoms: u64, pairs: u64 },
            Other,
        }
        #[allow(unused_assignments)]
        let mut exp = Exp::Other;
        let opname: String;
        // perform the call
        let result: Result<Option<NodePtr>, clvmr::error::EvalErr> = match op {
            Op::Atom(b) => {
                opname = format!("new_atom({})", hex::encode(b));
                exp = Exp::NewAtom { bytes: b.clone(), heap: b.len() as u64 };
                a.new_atom(b).map(Some)
            }
            Op::Small(v) => {
                let v = *v & 0x3ff_ffff;
                let bytes = int_bytes(v as i128);
                opname = format!("new_small_number({v})");
                exp = Exp::NewAtom { heap: bytes.len() as u64, bytes };
                a.new_small_number(v).map(Some)
            }
            Op::U64(v) => {
                let bytes = int_bytes(*v as i128);
                opname = format!("new_u64({v})");
                exp = Exp::NewAtom { heap: bytes.len() as u64, bytes };
                a.new_u64(*v).map(Some)
            }
            Op::I64(v) => {
                let bytes = int_bytes(*v as i128);
                opname = format!("new_i64({v})");
                exp = Exp::NewAtom { heap: bytes.len() as u64, bytes };
                a.new_i64(*v).map(Some)
            }
            Op::Number(b) => {
                let bytes = minimal(b);
                opname = format!("new_number(value of {})", hex::encode(b));
                exp = Exp::NewAtom { heap: bytes.len() as u64, bytes };
                let n = if b.is_empty() { Number::from(0) } else { Number::from_signed_bytes_be(b) };
                a.new_number(n).map(Some)
            }
            Op::Malachite(b) => {
                let bytes = minimal(b);
                opname = format!("new_malachite_number(value of {})", hex::encode(b));
                exp = Exp::NewAtom { heap: bytes.len() as u64, bytes };
                let n = if b.is_empty() { Malachite::from(0) } else { Malachite::from_signed_bytes_be(b) };
                a.new_malachite_number(n).map(Some)
            }
            Op::Pair(i, j) => {
                let (Some(i), Some(j)) = (live_idx(&nodes, *i, None), live_idx(&nodes, *j, None)) else {
                    continue;
                };
                opname = format!("new_pair(#{i}, #{j})");
                exp = Exp::NewPair(i, j);
                a.new_pair(nodes[i].ptr, nodes[j].ptr).map(Some)
            }
            Op::Substr(i, s, e) => {
                let Some(i) = live_idx(&nodes, *i, Some(true)) else { continue };
                let MNode::A(pb) = nodes[i].node.clone() else { unreachable!() };
                let len = pb.len() as u32;
                // map bounds: mostly valid, sometimes out of range
                let (s, e) = if *s > 0x8000_0000 {
                    (*s % (len + 3), *e % (len + 3))
                } else {
                    let s2 = *s % (len + 1);
                    let e2 = s2 + *e % (len - s2 + 1);
                    (s2, e2)
                };
                let inline = nodes[i].ptr.object_type() == ObjectType::SmallAtom;
                opname = format!("new_substr(#{i} = {}{}, {s}, {e})", hex::encode(&pb), if inline { " [inline parent]" } else { "" });
                if s <= e && e <= len {
                    exp = Exp::NewAtom { bytes: pb[s as usize..e as usize].to_vec(), heap: 0 };
                    obs.substr = true;
                } else {
                    exp = Exp::Other; // invalid bounds: must fail without effect
                }
                let r = a.new_substr(nodes[i].ptr, s, e);
                if !(s <= e && e <= len) {
                    match &r {
                        Err(e2) if err_kind(e2) == "InvalidAllocArg" || err_kind(e2) == "TooManyAtoms" => {}
                        other => {
                            return Err((format!("step {step}: {opname} with invalid bounds returned {:?}", other.as_ref().map(|_| "Ok").map_err(err_kind)), None));
                        }
                    }
                }
                r.map(Some)
            }
            Op::Concat(refs, delta) => {
                let mut idxs = Vec::new();
                let mut bytes = Vec::new();
                for r in refs {
                    if let Some(i) = live_idx(&nodes, *r, Some(true)) {
                        if let MNode::A(b) = &nodes[i].node {
                            bytes.extend_from_slice(b);
                        }
                        idxs.push(i);
                    }
                }
                let ptrs: Vec<NodePtr> = idxs.iter().map(|i| nodes[*i].ptr).collect();
                let size = (bytes.len() as i64 + *delta as i64).max(0) as usize;
                opname = format!("new_concat({size}, {idxs:?} = {} bytes)", bytes.len());
                let r = a.new_concat(size, &ptrs);
                if size != bytes.len() {
                    // wrong size: must fail (any error) and leave the allocator unchanged
                    if r.is_ok() {
                        return Err((format!("step {step}: {opname} with a wrong size succeeded"), None));
                    }
                    exp = Exp::Other;
                } else {
                    obs.concat = true;
                    exp = Exp::NewAtom { heap: size as u64, bytes };
                }
                r.map(Some)
            }
            Op::G1(k) => {
                let p = g1(*k);
                let bytes = p.to_bytes().to_vec();
                opname = format!("new_g1({k}*G)");
                exp = Exp::NewAtom { heap: 48, bytes };
                a.new_g1(p).map(Some)
            }
            Op::G2(k) => {
                let p = g2(*k);
                let bytes = p.to_bytes().to_vec();
                opname = format!("new_g2(#{k})");
                exp = Exp::NewAtom { heap: 96, bytes };
                a.new_g2(p).map(Some)
            }
            Op::GhostAtom(n) => {
                opname = format!("add_ghost_atom({n})");
                exp = Exp::Ghost { atoms: *n as u64, pairs: 0 };
                a.add_ghost_atom(*n as usize).map(|_| None)
            }
            Op::GhostPair(n) => {
                opname = format!("add_ghost_pair({n})");
                exp = Exp::Ghost { atoms: 0, pairs: *n as u64 };
                a.add_ghost_pair(*n as usize).map(|_| None)
            }
            Op::Checkpoint => {
                cps.push(Cp::Full(a.checkpoint(), nodes.len(), (atoms, pairs, heap)));
                allocs_since_cp = 0;
                continue;
            }
            Op::TCheckpoint => {
                cps.push(Cp::Transparent(a.transparent_checkpoint(), nodes.len()));
                allocs_since_cp = 0;
                continue;
            }
            Op::Restore(k) | Op::TRestore(k) => {
                let want_full = matches!(op, Op::Restore(_));
                let cand: Vec<usize> = cps
                    .iter()
                    .enumerate()
                    .filter(|(_, c)| matches!(c, Cp::Full(..)) == want_full)
                    .map(|(i, _)| i)
                    .collect();
                if cand.is_empty() {
                    continue;
                }
                let k = cand[(*k as usize * cand.len()) >> 16];
                let created_after = match &cps[k] {
                    Cp::Full(cp, n, snap) => {
                        a.restore_checkpoint(cp);
                        (atoms, pairs, heap) = *snap;
                        *n
                    }
                    Cp::Transparent(cp, n) => {
                        a.restore_transparent_checkpoint(cp);
                        *n
                    }
                };
                let had_alloc = nodes.len() > created_after;
                if want_full && had_alloc {
                    obs.full_restore_after_alloc = true;
                }
                if !want_full && had_alloc {
                    obs.transparent_restore_after_alloc = true;
                }
                for n in nodes.iter_mut() {
                    // after a transparent restore inline atoms are plain values that stay
                    // usable (and stay accounted for); a full restore rolls their
                    // accounting back, so in the reference model they are gone as well
                    if n.birth >= created_after && (want_full || n.ptr.object_type() != ObjectType::SmallAtom) {
                        n.alive = false;
                    }
                }
                // a node created before this checkpoint but after an earlier live
                // checkpoint "survived a restore to a checkpoint taken after its creation"
                for (i, n) in nodes.iter().enumerate() {
                    if n.alive && i < created_after {
                        restored_over[i] = true;
                    }
                }
                cps.truncate(k + 1);
                opname = format!("restore(cp {k}, full={want_full})");
                let after = (a.atom_count() as u64, a.pair_count() as u64, a.heap_size() as u64);
                if cfg.counters && after != (atoms, pairs, heap) {
                    return Err((
                        format!("step {step}: after {opname} the allocator reports (atoms,pairs,heap)={after:?}, expected {:?}", (atoms, pairs, heap)),
                        None,
                    ));
                }
                check_contents(&a, &nodes, cfg, step, &opname, &mut obs, &restored_over)?;
                continue;
            }
            Op::MaybeRestore(k, n) => {
                let cand: Vec<usize> = cps.iter().enumerate().filter(|(_, c)| matches!(c, Cp::Transparent(..))).map(|(i, _)| i).collect();
                if cand.is_empty() {
                    continue;
                }
                // only the innermost transparent checkpoint with no full checkpoint above it
                let k = cand[(*k as usize * cand.len()) >> 16];
                if cps[k + 1..].iter().any(|c| matches!(c, Cp::Full(..))) {
                    continue;
                }
                let Some(ni) = live_idx(&nodes, *n, None) else { continue };
                let Cp::Transparent(cp, created_after) = &cps[k] else { unreachable!() };
                let created_after = *created_after;
                opname = format!("maybe_restore_with_node(cp {k}, #{ni})");
                let r = a.maybe_restore_with_node(cp, nodes[ni].ptr);
                match r {
                    Err(e) => {
                        return Err((format!("step {step}: {opname} failed: {e}"), None));
                    }
                    Ok(MaybeRestore::Aborted) => {
                        obs.labels.push("maybe_restore:aborted".into());
                    }
                    Ok(res) => {
                        obs.value_restore = true;
                        let keep = nodes[ni].node.clone();
                        for n in nodes.iter_mut() {
                            if n.birth >= created_after && n.ptr.object_type() != ObjectType::SmallAtom {
                                n.alive = false;
                            }
                        }
                        for (i, n) in nodes.iter().enumerate() {
                            if n.alive && i < created_after {
                                restored_over[i] = true;
                            }
                        }
                        match res {
                            MaybeRestore::Replace(p) => {
                                obs.labels.push("maybe_restore:replace".into());
                                let b = birth_of(&nodes, p);
                                nodes.push(Live { node: keep, ptr: p, alive: true, birth: b });
                                restored_over.push(false);
                            }
                            _ => {
                                obs.labels.push("maybe_restore:noreplace".into());
                                if !nodes[ni].alive {
                                    return Err((format!("step {step}: {opname} returned NoReplace although the node was created after the checkpoint"), None));
                                }
                            }
                        }
                        cps.truncate(k + 1);
                    }
                }
                let after = (a.atom_count() as u64, a.pair_count() as u64, a.heap_size() as u64);
                if cfg.counters && after != (atoms, pairs, heap) {
                    return Err((
                        format!("step {step}: {opname} changed the reported counts to {after:?}, expected unchanged {:?}", (atoms, pairs, heap)),
                        None,
                    ));
                }
                check_contents(&a, &nodes, cfg, step, &opname, &mut obs, &restored_over)?;
                continue;
            }
        };
        // judge the outcome against the model
        let after = (a.atom_count() as u64, a.pair_count() as u64, a.heap_size() as u64);
        // which caps would be exceeded by completing the call?
        let (d_atoms, d_pairs, d_heap) = match &exp {
            Exp::NewAtom { heap: h, .. } => (1u64, 0u64, *h),
            Exp::NewPair(..) => (0, 1, 0),
            Exp::Ghost { atoms, pairs } => (*atoms, *pairs, 0),
            Exp::Other => (0, 0, 0),
        };
        let over_atoms = atoms + d_atoms > MAX_ATOMS;
        let over_pairs = pairs + d_pairs > MAX_PAIRS;
        let over_heap = d_heap > 0 && heap + d_heap > limit;
        // an allocator that is already above its heap limit (created with a limit below its
        // initial accounting, or after known finding F5): a zero-byte atom allocation may or
        // may not be refused; both outcomes are within the property
        let heap_ambiguous = d_heap == 0 && heap > limit && matches!(exp, Exp::NewAtom { .. });
        match (&result, &exp) {
            (Err(e), Exp::Other) => {
                // invalid-argument failure: no effect allowed
                let _ = e;
                if cfg.counters && after != before {
                    return Err((format!("step {step}: failed {opname} changed the counts from {before:?} to {after:?}"), None));
                }
            }
            (Ok(_), Exp::Other) => {}
            (Err(e), _) => {
                let k = err_kind(e);
                let justified = (k == "TooManyAtoms" && over_atoms) || (k == "TooManyPairs" && over_pairs) || (k == "OutOfMemory" && (over_heap || heap_ambiguous));
                if !justified {
                    return Err((
                        format!(
                            "step {step}: {opname} failed with {k} but completing it would give (atoms,pairs,heap)=({},{},{}) within caps ({MAX_ATOMS},{MAX_PAIRS},{limit})",
                            atoms + d_atoms,
                            pairs + d_pairs,
                            heap + d_heap
                        ),
                        None,
                    ));
                }
                obs.cap_failures += 1;
                obs.labels.push(format!("cap:{k}"));
                if cfg.counters && after != before {
                    return Err((format!("step {step}: failed {opname} changed the counts from {before:?} to {after:?}"), None));
                }
            }
            (Ok(p), _) => {
                if over_atoms || over_pairs || over_heap {
                    return Err((
                        format!(
                            "step {step}: {opname} succeeded although completing it gives (atoms,pairs,heap)=({},{},{}) beyond caps ({MAX_ATOMS},{MAX_PAIRS},{limit})",
                            atoms + d_atoms,
                            pairs + d_pairs,
                            heap + d_heap
                        ),
                        None,
                    ));
                }
                atoms += d_atoms;
                pairs += d_pairs;
                heap += d_heap;
                if (d_atoms > 0 && atoms == MAX_ATOMS) || (d_pairs > 0 && pairs == MAX_PAIRS) || (d_heap > 0 && heap == limit) {
                    obs.ok_at_cap += 1;
                }
                allocs_since_cp += 1;
                match (&exp, p) {
                    (Exp::NewAtom { bytes, .. }, Some(ptr)) => {
                        if ptr.object_type() == ObjectType::SmallAtom {
                            obs.inline_atom = true;
                        }
                        let b = birth_of(&nodes, *ptr);
                        nodes.push(Live { node: MNode::A(bytes.clone()), ptr: *ptr, alive: true, birth: b });
                        restored_over.push(false);
                    }
                    (Exp::NewPair(i, j), Some(ptr)) => {
                        let b = nodes.len();
                        nodes.push(Live { node: MNode::P(*i, *j), ptr: *ptr, alive: true, birth: b });
                        restored_over.push(false);
                    }
                    _ => {}
                }
                if cfg.counters && after != (atoms, pairs, heap) {
                    // Known finding F5: new_substr of an inline atom whose slice cannot be
                    // stored inline copies the slice onto the heap and counts it. Recognised
                    // exactly (inline parent, slice not inline-representable, heap grew by
                    // the slice length, nothing else differs); the model then follows the
                    // implementation so that the rest of the history is still checked.
                    let mut known = false;
                    if let (Op::Substr(..), Exp::NewAtom { bytes, .. }, Some(ptr)) = (op, &exp, p)
                        && ptr.object_type() == ObjectType::Bytes
                        && small_value(bytes).is_none()
                        && after.0 == atoms
                        && after.1 == pairs
                        && after.2 == heap + bytes.len() as u64
                        && opname.contains("inline parent")
                    {
                        known = true;
                        heap = after.2;
                        known_f5 = Some(format!(
                            "step {step}: after {opname} the allocator reports (atoms,pairs,heap)={after:?}; a substring shares its parent's bytes, so counting every atom as a separately stored byte string gives heap {} (limit {limit})",
                            after.2 - bytes.len() as u64
                        ));
                    }
                    if !known {
                        let msg = format!(
                            "step {step}: after {opname} the allocator reports (atoms,pairs,heap)={after:?}; counting every atom as a separately stored byte string gives {:?}",
                            (atoms, pairs, heap)
                        );
                        return Err((msg, None));
                    }
                }
            }
        }
        // invariant: no call may move a count beyond its cap (an allocator created with a
        // limit below its initial 1-byte accounting starts above it; only growth is judged)
        if (after.0 > MAX_ATOMS && after.0 > before.0) || (after.1 > MAX_PAIRS && after.1 > before.1) || (after.2 > limit && after.2 > before.2 && known_f5.is_none()) {
            return Err((format!("step {step}: after {opname} counts {after:?} exceed the caps ({MAX_ATOMS},{MAX_PAIRS},{limit})"), None));
        }
        let _ = allocs_since_cp;
        check_contents(&a, &nodes, cfg, step, &opname, &mut obs, &restored_over)?;
    }
    if let Some(m) = known_f5 {
        return Err((m, Some("substr-of-inline-atom-copies-and-counts-slice".to_string())));
    }
    Ok(obs)
}

fn check_contents(
    a: &Allocator,
    nodes: &[Live],
    cfg: &Cfg,
    step: usize,
    opname: &str,
    obs: &mut Obs,
    restored_over: &[bool],
) -> Result<(), (String, Option<String>)> {
    if !cfg.contents {
        return Ok(());
    }
    let live: Vec<usize> = nodes.iter().enumerate().filter(|(_, n)| n.alive).map(|(i, _)| i).collect();
    for &i in &live {
        let n = &nodes[i];
        if restored_over[i] {
            obs.survivor_reread_after_restore = true;
        }
        match &n.node {
            MNode::A(b) => {
                if !matches!(a.sexp(n.ptr), SExp::Atom) {
                    return Err((format!("step {step} ({opname}): node #{i} was an atom, now reads as a pair"), None));
                }
                let got = a.atom(n.ptr);
                if got.as_ref() != b.as_slice() || a.atom_len(n.ptr) != b.len() {
                    return Err((
                        format!("step {step} ({opname}): atom #{i} now reads {} (len {}), was created as {}", hex::encode(got.as_ref()), a.atom_len(n.ptr), hex::encode(b)),
                        None,
                    ));
                }
                let sv = a.small_number(n.ptr);
                if sv != small_value(b) {
                    return Err((
                        format!("step {step} ({opname}): small_number(atom {}) = {sv:?}, minimal-encoding rule gives {:?}", hex::encode(b), small_value(b)),
                        None,
                    ));
                }
                let nb = number_bytes(&a.number(n.ptr));
                let mb = malachite_bytes(&a.malachite_number(n.ptr));
                let want = minimal(b);
                if nb != want || mb != want {
                    return Err((
                        format!("step {step} ({opname}): number/malachite_number of atom {} = {}/{} (as minimal bytes), expected {}", hex::encode(b), hex::encode(&nb), hex::encode(&mb), hex::encode(&want)),
                        None,
                    ));
                }
            }
            MNode::P(l, r) => match a.sexp(n.ptr) {
                SExp::Pair(pl, pr) => {
                    if pl != nodes[*l].ptr || pr != nodes[*r].ptr {
                        return Err((format!("step {step} ({opname}): pair #{i} no longer points at its original children"), None));
                    }
                }
                SExp::Atom => return Err((format!("step {step} ({opname}): pair #{i} now reads as an atom"), None)),
            },
        }
    }
    // atom_eq agrees with byte equality (all pairs of up to 24 live atoms)
    let atoms: Vec<usize> = live.iter().copied().filter(|i| matches!(nodes[*i].node, MNode::A(_))).rev().take(24).collect();
    for &x in &atoms {
        for &y in &atoms {
            let (MNode::A(bx), MNode::A(by)) = (&nodes[x].node, &nodes[y].node) else { unreachable!() };
            let eq = a.atom_eq(nodes[x].ptr, nodes[y].ptr);
            if eq != (bx == by) {
                return Err((
                    format!("step {step} ({opname}): atom_eq({}, {}) = {eq}", hex::encode(bx), hex::encode(by)),
                    None,
                ));
            }
        }
    }
    Ok(())
}

pub fn run_case(c: &Case, cfg: &Cfg) -> Result<Obs, Verdict> {
    match guard(|| run_history(c, cfg)) {
        Ok(Ok(o)) => Ok(o),
        Ok(Err((m, Some(sig)))) => Err(Verdict::fail_sig(m, sig)),
        Ok(Err((m, None))) => Err(Verdict::fail(m)),
        Err(p) => Err(Verdict::fail(format!("panic: {p}"))),
    }
}

// ------------------------------------------------------------ generators --

fn gen_op(t: &mut Tape, near_cap: bool) -> Op {
    let r = |t: &mut Tape| (t.word() >> 16) as u16;
    match t.weighted(&[8, 4, 2, 2, 2, 2, 8, 6, 5, 1, 1, 2, 2, 3, 3, 3, 3, 3]) {
        0 => Op::Atom(gen_atom(t, 60)),
        1 => Op::Small(match t.below(3) {
            0 => t.below(300),
            1 => (gen_int(t).unsigned_abs() as u32) & 0x3ff_ffff,
            _ => 0x3ff_ffff - t.below(3),
        }),
        2 => Op::U64(gen_int(t).unsigned_abs() as u64),
        3 => Op::I64(gen_int(t) as i64),
        4 => {
            let mut b = int_bytes(gen_int(t));
            if t.chance(1, 3) {
                b = crate::r#gen::atoms::pad_int(t, &b);
            }
            if t.chance(1, 5) {
                let n = 9 + t.below(30) as usize;
                b = t.bytes(n);
            }
            Op::Number(b)
        }
        5 => {
            let mut b = int_bytes(gen_int(t));
            if t.chance(1, 3) {
                b = crate::r#gen::atoms::pad_int(t, &b);
            }
            if t.chance(1, 5) {
                let n = 9 + t.below(30) as usize;
                b = t.bytes(n);
            }
            Op::Malachite(b)
        }
        6 => Op::Pair(r(t), r(t)),
        7 => Op::Substr(r(t), t.word(), t.word()),
        8 => {
            let n = t.weighted(&[1, 3, 5, 3, 2]);
            let refs = (0..n).map(|_| r(t)).collect();
            let delta = if t.chance(1, 10) { t.below(5) as i8 - 2 } else { 0 };
            Op::Concat(refs, delta)
        }
        9 => Op::G1(t.below(4) as u8),
        10 => Op::G2(t.below(3) as u8),
        11 => Op::GhostAtom(if near_cap { t.below(6) } else { t.below(1000) }),
        12 => Op::GhostPair(if near_cap { t.below(6) } else { t.below(1000) }),
        13 => Op::Checkpoint,
        14 => Op::Restore(r(t)),
        15 => Op::TCheckpoint,
        16 => Op::TRestore(r(t)),
        _ => Op::MaybeRestore(r(t), r(t)),
    }
}

pub fn gen_case(t: &mut Tape, limits: bool) -> Case {
    let n = 1 + t.below(60) as usize;
    let (heap_limit, atoms_room, pairs_room) = if limits {
        (
            match t.below(4) {
                0 => None,
                1 => Some(1 + t.below(64)),
                _ => Some(t.below(4096)),
            },
            if t.chance(2, 3) { Some(t.below(50)) } else { None },
            if t.chance(2, 3) { Some(t.below(50)) } else { None },
        )
    } else {
        (None, None, None)
    };
    let near = atoms_room.is_some() || pairs_room.is_some();
    let mut ops = Vec::with_capacity(n);
    // for MaybeRestore to pass its savings threshold, sometimes allocate a big atom after a transparent checkpoint
    for _ in 0..n {
        let op = gen_op(t, near);
        if matches!(op, Op::TCheckpoint) && t.chance(1, 2) && !limits {
            ops.push(op);
            let k = 1024 + t.below(200) as usize;
            ops.push(Op::Atom(t.bytes(k)));
            continue;
        }
        ops.push(op);
    }
    Case { heap_limit, atoms_room, pairs_room, ops }
}
