//! C03 — evaluation is independent of heap history and atom representation.

use crate::checks::progcase::{BIG_BUDGET, ProgCase, gen_prog_case, safe_unlimited, show_case};
use crate::dag::{Dag, Interner, build, unshare};
use crate::engine::{Runner, Verdict, guard};
use crate::r#gen::atoms::gen_atom;
use crate::r#gen::programs::{GenProg, ProgCfg, gen_flags, gen_program, valid_g1, valid_g2};
use crate::tape::Tape;
use crate::util::{F_RELAXED_BLS, Out, flags, to_out};
use clvmr::allocator::{Allocator, NodePtr};
use clvmr::chia_dialect::ChiaDialect;
use clvmr::run_program::run_program;
use serde::{Deserialize, Serialize};

#[derive(Serialize, Deserialize, Clone, Debug)]
pub enum HOp {
    Atom(#[serde(with = "crate::util::hexbytes")] Vec<u8>),
    Pair(u16, u16),
    Checkpoint,
    Restore,
    /// an earlier run in the same allocator
    Run { p: GenProg, flags: u32, budget: u64 },
}

#[derive(Serialize, Deserialize, Clone, Debug)]
pub struct Case {
    pub c: ProgCase,
    pub history: Vec<HOp>,
}

fn apply_history(a: &mut Allocator, h: &[HOp]) -> (usize, usize) {
    let mut nodes: Vec<NodePtr> = vec![a.nil()];
    let mut cps = Vec::new();
    let mut runs = 0;
    let mut allocs = 0;
    for op in h {
        match op {
            HOp::Atom(b) => {
                if let Ok(n) = a.new_atom(b) {
                    nodes.push(n);
                    allocs += 1;
                }
            }
            HOp::Pair(i, j) => {
                let x = nodes[(*i as usize * nodes.len()) >> 16];
                let y = nodes[(*j as usize * nodes.len()) >> 16];
                if let Ok(n) = a.new_pair(x, y) {
                    nodes.push(n);
                    allocs += 1;
                }
            }
            HOp::Checkpoint => cps.push((a.checkpoint(), nodes.len())),
            HOp::Restore => {
                if let Some((cp, n)) = cps.pop() {
                    a.restore_checkpoint(&cp);
                    nodes.truncate(n);
                }
            }
            HOp::Run { p, flags: f, budget } => {
                let (Ok(pp), Ok(e)) = (build(a, &p.prog), build(a, &p.env)) else { continue };
                let d = ChiaDialect::new(flags(*f));
                let _ = guard(|| run_program(a, &d, pp, e, *budget));
                runs += 1;
            }
        }
    }
    (runs, allocs)
}

fn run_in(i: &mut Interner, a: &mut Allocator, prog: &Dag, env: &Dag, bits: u32, budget: u64) -> Option<Out> {
    let p = build(a, prog).ok()?;
    let e = build(a, env).ok()?;
    let d = ChiaDialect::new(flags(bits));
    let r = guard(|| run_program(a, &d, p, e, budget));
    Some(to_out(a, i, r))
}

pub fn test_case(c: &Case) -> Verdict {
    let pc = &c.c;
    if !pc.p.prog.is_valid() || !pc.p.env.is_valid() {
        return Verdict::discard();
    }
    let budget = match pc.budgets.first() {
        Some(b) if b % 3 == 0 => 1 + (b >> 8) % 3_000_000,
        _ => {
            if safe_unlimited(&pc.p) {
                0
            } else {
                BIG_BUDGET
            }
        }
    };
    let mut i = Interner::new();
    let nat_prog = pc.p.prog.all_nat();
    let nat_env = pc.p.env.all_nat();
    // A: fresh allocator, natural encoding
    let mut a1 = Allocator::new();
    let Some(base) = run_in(&mut i, &mut a1, &nat_prog, &nat_env, pc.flags, budget) else { return Verdict::discard() };
    if let Out::Panic(m) = &base {
        return Verdict::fail(format!("panic: {m}\n {}", show_case(pc)));
    }
    let limit_err = |o: &Out| matches!(o, Out::Err { kind, .. } if kind == "TooManyAtoms" || kind == "TooManyPairs" || kind == "OutOfMemory");
    if limit_err(&base) {
        return Verdict::discard();
    }
    let mut variants: Vec<(&str, Out)> = Vec::new();
    // A again (randomised accumulator split, hashing salts)
    let mut a1b = Allocator::new();
    if let Some(o) = run_in(&mut i, &mut a1b, &nat_prog, &nat_env, pc.flags, budget) {
        variants.push(("the same run repeated in a fresh allocator", o));
    }
    // B: after the history
    let mut a2 = Allocator::new();
    let (runs, allocs) = apply_history(&mut a2, &c.history);
    if let Some(o) = run_in(&mut i, &mut a2, &nat_prog, &nat_env, pc.flags, budget) {
        variants.push(("after the allocator history", o));
    }
    // and once more in the same allocator (the previous run is now history too)
    if let Some(o) = run_in(&mut i, &mut a2, &nat_prog, &nat_env, pc.flags, budget) {
        variants.push(("run a second time in the same allocator", o));
    }
    // C: re-encoded atoms (representations as generated) and changed sharing
    let mut a3 = Allocator::new();
    if let Some(o) = run_in(&mut i, &mut a3, &pc.p.prog, &pc.p.env, pc.flags, budget) {
        variants.push(("with atoms stored in other internal forms", o));
    }
    if let (Some(up), Some(ue)) = (unshare(&pc.p.prog, 4000), unshare(&pc.p.env, 4000)) {
        let mut a4 = Allocator::new();
        if let Some(o) = run_in(&mut i, &mut a4, &up, &ue, pc.flags, budget) {
            variants.push(("with sharing removed and other internal forms", o));
        }
    }
    for (name, o) in &variants {
        if limit_err(o) {
            continue;
        }
        if *o != base {
            return Verdict::fail(format!(
                "outcome differs {name}:\n fresh allocator, natural atoms: {}\n {name}: {}\n budget {budget}\n {}",
                base.show(&i),
                o.show(&i),
                show_case(pc)
            ));
        }
    }
    let reencoded = pc.p.prog.n.iter().chain(pc.p.env.n.iter()).any(|n| matches!(n, crate::dag::N::A(_, r) if *r != crate::dag::Repr::Nat));
    let nt = (runs >= 1 || allocs >= 10) && reencoded;
    Verdict::pass(nt).label(format!("base:{}", base.kind())).label(if runs > 0 { "history has runs" } else { "history without runs" })
}

/// programs and histories drawing BLS blobs from one small pool (closed under the sign flip)
fn bls_pool(t: &mut Tape) -> Vec<Vec<u8>> {
    let mut pool = Vec::new();
    for _ in 0..3 {
        let mut b = match t.below(3) {
            0 => valid_g1(1 + t.below_usize(5)),
            1 => t.bytes(48),
            _ => {
                let mut b = valid_g1(1 + t.below_usize(5));
                b[t.below_usize(48)] ^= 1 << t.below(8);
                b
            }
        };
        pool.push(b.clone());
        b[0] ^= 0x20;
        pool.push(b);
    }
    for _ in 0..2 {
        let mut b = match t.below(2) {
            0 => valid_g2(1 + t.below_usize(4)),
            _ => t.bytes(96),
        };
        pool.push(b.clone());
        b[0] ^= 0x20;
        pool.push(b);
    }
    pool
}

fn bls_prog(t: &mut Tape, pool: &[Vec<u8>], raise: bool) -> GenProg {
    let mut d = Dag::new();
    let q = |d: &mut Dag, v: u32| {
        let one = d.atom(&[1]);
        d.pair(one, v)
    };
    let call = |d: &mut Dag, op: u8, args: &[u32]| {
        let o = d.atom(&[op]);
        let l = d.list(args);
        d.pair(o, l)
    };
    let b = t.pick(pool).clone();
    let is_g1 = b.len() == 48;
    let x0 = d.atom(&b);
    let x = q(&mut d, x0);
    let mut e = match t.below(4) {
        0 => call(&mut d, if is_g1 { 51 } else { 55 }, &[x]),
        1 => {
            let n = call(&mut d, if is_g1 { 51 } else { 55 }, &[x]);
            call(&mut d, if is_g1 { 51 } else { 55 }, &[n])
        }
        2 => call(&mut d, if is_g1 { 29 } else { 52 }, &[x, x]),
        _ => {
            let n = call(&mut d, if is_g1 { 51 } else { 55 }, &[x]);
            call(&mut d, if is_g1 { 49 } else { 53 }, &[n, x])
        }
    };
    if raise {
        e = call(&mut d, 8, &[e]);
    }
    let _ = e;
    let mut env = Dag::new();
    env.nil();
    GenProg { prog: d, env, info: Default::default() }
}

/// operator applied to quoted atoms that are equal or nearly equal, short (inline
/// eligible) or at representation boundaries, each in a generated internal form
fn binop_prog(t: &mut Tape) -> GenProg {
    use crate::r#gen::atoms::{gen_int, gen_repr, int_bytes, pad_int};
    let mut d = Dag::new();
    let base: Vec<u8> = match t.below(6) {
        0 | 1 => {
            // inline-eligible value of a chosen byte length 0..4
            let len = t.below(5);
            if len == 0 {
                vec![]
            } else {
                let lo: i128 = if len == 1 { 1 } else { 1i128 << (8 * (len - 1) - 1) };
                let hi: i128 = ((1i128 << (8 * len - 1)) - 1).min((1 << 26) - 1);
                int_bytes(lo + (t.u64() as i128) % (hi - lo + 1))
            }
        }
        2 => int_bytes((1i128 << (8 * (1 + t.below(4)) - 1)) - 1 - t.below(3) as i128),
        3 => int_bytes(gen_int(t)),
        4 => {
            let n = 1 + t.below(5) as usize;
            t.bytes(n)
        }
        _ => int_bytes((1 << 24) + t.below(3 << 24) as i128),
    };
    let n_args = 1 + t.below(3);
    let mut args = Vec::new();
    for _ in 0..n_args {
        let mut b = base.clone();
        match t.below(5) {
            0 | 1 => {}
            2 => {
                if let Some(l) = b.last_mut() {
                    *l ^= 1 << t.below(8);
                }
            }
            3 => b = pad_int(t, &b),
            _ => b = int_bytes(gen_int(t)),
        }
        let r = gen_repr(t);
        let a = d.atom_r(&b, r);
        let one = d.atom(&[1]);
        args.push(d.pair(one, a));
    }
    const OPS: [(u8, u32); 23] = [
        (9, 8), (21, 8), (10, 3), (16, 5), (17, 5), (18, 3), (19, 3), (20, 3), (24, 2), (25, 2), (26, 2), (27, 2), (11, 5), (14, 2), (12, 4),
        (13, 2), (22, 3), (23, 3), (32, 1), (33, 1), (3, 2), (61, 2), (36, 4),
    ];
    let w: Vec<u32> = OPS.iter().map(|x| x.1).chain([2u32]).collect();
    let k = t.weighted(&w);
    let op: Vec<u8> = if k < OPS.len() { vec![OPS[k].0] } else { vec![1 + t.below(3) as u8, (t.below(4) << 6) as u8] };
    // binary operators get exactly two operands most of the time
    if matches!(op[0], 9 | 21 | 10 | 19 | 20 | 61 | 22 | 23) && op.len() == 1 && t.chance(9, 10) {
        while args.len() < 2 {
            let mut b = base.clone();
            if t.flip()
                && let Some(l) = b.last_mut()
            {
                *l ^= 1 << t.below(8);
            }
            let r = gen_repr(t);
            let a = d.atom_r(&b, r);
            let one = d.atom(&[1]);
            args.push(d.pair(one, a));
        }
        args.truncate(2);
    }
    if op == [11] && t.flip() {
        // the (sha256 1 n) shape with a precomputed-hash fast path
        let one_atom = d.atom_r(&[1], gen_repr(t));
        let q1 = d.atom(&[1]);
        let a1 = d.pair(q1, one_atom);
        let n_atom = d.atom_r(&int_bytes(t.below(45) as i128), gen_repr(t));
        let q2 = d.atom(&[1]);
        let a2 = d.pair(q2, n_atom);
        args = vec![a1, a2];
    }
    if op == [36] {
        // unknown extension: nil at the declared cost, whatever its size
        let ext = d.atom_r(&int_bytes(2 + t.below(1000) as i128), gen_repr(t));
        let one = d.atom(&[1]);
        let eq = d.pair(one, ext);
        let first = args[0];
        args = vec![first, eq];
    }
    let o = d.atom(&op);
    let l = d.list(&args);
    d.pair(o, l);
    let mut env = Dag::new();
    env.nil();
    GenProg { prog: d, env, info: Default::default() }
}

pub fn gen_case(t: &mut Tape, cfg: &ProgCfg) -> Case {
    let mut c = gen_prog_case(t, cfg);
    if t.chance(3, 10) {
        c.p = binop_prog(t);
        if t.flip() {
            c.flags &= !(crate::util::F_NO_UNKNOWN_OPS);
        }
    }
    let mut history = Vec::new();
    let bls = t.chance(1, 4);
    let pool = if bls { bls_pool(t) } else { vec![] };
    if bls {
        c.p = bls_prog(t, &pool, false);
        c.flags &= !F_RELAXED_BLS;
        if t.flip() {
            c.flags = 0;
        }
    }
    let n = t.below(14);
    for _ in 0..n {
        let op = match t.weighted(&[4, 4, 1, 1, 3]) {
            0 => HOp::Atom(gen_atom(t, 80)),
            1 => HOp::Pair((t.word() >> 16) as u16, (t.word() >> 16) as u16),
            2 => HOp::Checkpoint,
            3 => HOp::Restore,
            _ => {
                if bls {
                    let raise = t.chance(2, 3);
                    HOp::Run { p: bls_prog(t, &pool, raise), flags: if t.chance(2, 3) { F_RELAXED_BLS } else { 0 }, budget: 0 }
                } else {
                    let f = gen_flags(t);
                    let mut pcfg = *cfg;
                    pcfg.prerun_flags = f;
                    pcfg.max_depth = 3;
                    let p = gen_program(t, &pcfg);
                    HOp::Run { p, flags: f, budget: 1 + t.below(2_000_000) as u64 }
                }
            }
        };
        history.push(op);
    }
    Case { c, history }
}

pub fn run(r: &mut Runner) {
    r.rule = "case = (program, environment, flags, budget, allocator history, re-encoding). History: up to 14 operations executed first in the same allocator (atoms, pairs, full checkpoints/restores, earlier runs of other generated programs under other flags incl. failing ones); \
        a quarter of the cases draw G1/G2 blobs of the history's runs and of the program from one small pool (valid points, corrupted points, garbage, closed under the sign flip) with history runs ending in raise under RELAXED_BLS. Re-encoding: every atom gets a generated internal form (inline/heap copy/substring view); sharing removed. \
        Oracle: outcome (result by value, cost, error kind and message) in a fresh allocator with natural atoms == repeated == after the history == run again == re-encoded == unshared. Non-trivial = history has a run or >= 10 allocations and some atom got a non-natural form; distinct by case."
        .into();
    r.assumptions = vec!["variants that hit an allocator count/heap limit are skipped, as the property excludes them".into()];
    let cfg = ProgCfg { mutate_pct: 15, raw_pct: 3, reprs: true, ..Default::default() };
    let n = r.n(60_000, 1_500_000);
    r.run_part("cases", n, 900, |t: &mut Tape| gen_case(t, &cfg), test_case);
    r.require_label("history has runs", 3000);
}
