//! C11 — operator results do not depend on the cost model.

use crate::checks::c25::{OpCase, gen_op_case, op_table};
use crate::checks::progcase::{BIG_BUDGET, ProgCase, gen_prog_case, run_fresh, safe_unlimited, show_case};
use crate::dag::{Interner, build};
use crate::engine::{Runner, Verdict, guard};
use crate::r#gen::programs::ProgCfg;
use crate::tape::Tape;
use crate::util::{F_NEW_COST, Out, flag_names, flags, to_out};
use clvmr::allocator::Allocator;

pub fn test_prog(c: &ProgCase) -> Verdict {
    if !c.p.prog.is_valid() || !c.p.env.is_valid() {
        return Verdict::discard();
    }
    let base = c.flags & !F_NEW_COST;
    let budget = if safe_unlimited(&c.p) { 0 } else { BIG_BUDGET };
    let mut i = Interner::new();
    let (Some(old), Some(new)) = (run_fresh(&mut i, &c.p.prog, &c.p.env, base, budget, None), run_fresh(&mut i, &c.p.prog, &c.p.env, base | F_NEW_COST, budget, None)) else {
        return Verdict::discard();
    };
    for r in [&old, &new] {
        if let Out::Panic(m) = &r.out {
            return Verdict::fail(format!("panic: {m}\n {}", show_case(c)));
        }
    }
    match (&old.out, &new.out) {
        (Out::Ok { cost: c1, val: v1 }, Out::Ok { cost: c2, val: v2 }) => {
            if v1 != v2 {
                return Verdict::fail(format!(
                    "result depends on the cost model:\n old model: cost {c1} value {}\n new model: cost {c2} value {}\n {}",
                    i.to_hex(*v1, 300),
                    i.to_hex(*v2, 300),
                    show_case(c)
                ));
            }
            Verdict::pass(c1 != c2 && old.ops >= 1).label(if c1 != c2 { "costs differ" } else { "costs equal" })
        }
        (a, b) => Verdict::pass(false).label(format!("{}/{}", if a.is_ok() { "ok" } else { "err" }, if b.is_ok() { "ok" } else { "err" })),
    }
}

pub fn test_op(c: &OpCase) -> Verdict {
    if !c.args.is_valid() {
        return Verdict::discard();
    }
    let Some((_, f)) = op_table().into_iter().find(|(n, _)| *n == c.op) else {
        return Verdict::discard();
    };
    let mut i = Interner::new();
    let mut outs = Vec::new();
    for bits in [c.flags & !F_NEW_COST, c.flags | F_NEW_COST] {
        let mut a = Allocator::new();
        let Ok(args) = build(&mut a, &c.args) else { return Verdict::discard() };
        let r = guard(|| f(&mut a, args, u64::MAX, flags(bits)));
        outs.push(to_out(&a, &mut i, r));
    }
    match (&outs[0], &outs[1]) {
        (Out::Panic(m), _) | (_, Out::Panic(m)) => Verdict::fail(format!("operator {} panicked: {m}", c.op)),
        (Out::Ok { cost: c1, val: v1 }, Out::Ok { cost: c2, val: v2 }) => {
            if v1 != v2 {
                return Verdict::fail(format!(
                    "operator {} returns different values under the two cost models:\n old: {}\n new: {}\n args {} flags {}",
                    c.op,
                    i.to_hex(*v1, 300),
                    i.to_hex(*v2, 300),
                    crate::dag::dag_hex(&c.args, 600),
                    flag_names(c.flags)
                ));
            }
            Verdict::pass(c1 != c2).label(format!("op:{}", c.op))
        }
        _ => Verdict::pass(false),
    }
}

pub fn run(r: &mut Runner) {
    r.rule = "part programs: generated programs run under F and F|NEW_COST_MODEL at an unlimited (or 4*10^8) budget; part operators: every operator called directly under both models at u64::MAX. \
        Oracle: both succeed => equal result trees. Non-trivial = both succeed and the costs differ (a model-specific branch ran); distinct by case."
        .into();
    let cfg = ProgCfg { mutate_pct: 15, raw_pct: 3, reprs: true, ..Default::default() };
    let n = r.n(20_000, 1_000_000);
    r.run_part("programs", n, 600, |t: &mut Tape| gen_prog_case(t, &cfg), test_prog);
    let n = r.n(60_000, 2_000_000);
    r.run_part(
        "operators",
        n,
        200,
        |t: &mut Tape| {
            let mut c = gen_op_case(t);
            // bias towards the operators with model-specific branches
            if t.chance(1, 2) {
                c.op = (*t.pick(&["add", "subtract", "multiply", "logand", "logior", "logxor", "div", "divmod", "mod", "gr", "sha256", "substr", "modpow"])).to_string();
            }
            c.flags &= crate::util::F_ALL;
            c
        },
        test_op,
    );
}
