//! C24 — interning preserves the tree and deduplicates maximally.

use crate::checks::c15::TreeCase;
use crate::dag::{INode, Interner, N, build};
use crate::engine::{Runner, Verdict, guard};
use crate::r#gen::trees::{TreeCfg, gen_tree};
use crate::model::refhash::tree_hash;
use crate::tape::Tape;
use clvmr::allocator::{Allocator, NodePtr, SExp};
use clvmr::serde::intern_tree;
use std::collections::{HashMap, HashSet};

pub fn test_tree(c: &TreeCase) -> Verdict {
    if !c.tree.is_valid() {
        return Verdict::discard();
    }
    let d = &c.tree;
    // independent counts: distinct atom values / distinct sub-trees reachable from the root
    let mut i = Interner::new();
    let ids = i.dag_all(d);
    let reach = d.reachable();
    let mut atom_vals: HashSet<u32> = HashSet::new();
    let mut pair_vals: HashSet<u32> = HashSet::new();
    let mut src_atoms = 0usize;
    let mut src_pairs = 0usize;
    for (k, n) in d.n.iter().enumerate() {
        if !reach[k] {
            continue;
        }
        match n {
            N::A(..) => {
                atom_vals.insert(ids[k]);
                src_atoms += 1;
            }
            N::P(..) => {
                pair_vals.insert(ids[k]);
                src_pairs += 1;
            }
        }
    }
    let want_root = *ids.last().unwrap();
    let want_hash = tree_hash(d);
    let r = guard(|| -> Result<(), String> {
        let mut a = Allocator::new();
        let node = build(&mut a, d).map_err(|e| format!("build: {e}"))?;
        let it = intern_tree(&a, node).map_err(|e| format!("intern_tree: {e}"))?;
        // same tree
        let got = i.node(&it.allocator, it.root);
        if got != want_root {
            return Err(format!("interned tree differs: {}", i.to_hex(got, 300)));
        }
        if it.tree_hash() != want_hash {
            return Err("interned tree hash differs from the recursive definition".into());
        }
        // atoms pairwise distinct by bytes
        let mut seen: HashSet<Vec<u8>> = HashSet::new();
        for n in &it.atoms {
            if !matches!(it.allocator.sexp(*n), SExp::Atom) {
                return Err("atoms list contains a pair".into());
            }
            if !seen.insert(it.allocator.atom(*n).as_ref().to_vec()) {
                return Err(format!("interned atoms not distinct: {} twice", hex::encode(it.allocator.atom(*n).as_ref())));
            }
        }
        // pairs pairwise distinct as trees
        let mut memo: HashMap<NodePtr, u32> = HashMap::new();
        let mut seenp: HashSet<u32> = HashSet::new();
        for p in &it.pairs {
            if !matches!(it.allocator.sexp(*p), SExp::Pair(..)) {
                return Err("pairs list contains an atom".into());
            }
            let id = i.node_memo(&it.allocator, *p, &mut memo);
            if !seenp.insert(id) {
                return Err(format!("interned pairs not distinct: sub-tree {} twice", i.to_hex(id, 200)));
            }
        }
        if it.atoms.len() != atom_vals.len() {
            return Err(format!("{} interned atoms, {} distinct atom values in the source", it.atoms.len(), atom_vals.len()));
        }
        if it.pairs.len() != pair_vals.len() {
            return Err(format!("{} interned pairs, {} distinct sub-trees in the source", it.pairs.len(), pair_vals.len()));
        }
        if it.atoms.len() > src_atoms || it.pairs.len() > src_pairs {
            return Err("interned counts exceed the source's".into());
        }
        // every listed value occurs in the tree and vice versa
        for n in &it.atoms {
            let id = i.atom(it.allocator.atom(*n).as_ref());
            if !atom_vals.contains(&id) {
                return Err("interned atom does not occur in the source".into());
            }
        }
        for id in &seenp {
            if !pair_vals.contains(id) {
                return Err("interned pair does not occur in the source".into());
            }
        }
        // children before parents
        let mut pos: HashMap<NodePtr, usize> = HashMap::new();
        for (k, p) in it.pairs.iter().enumerate() {
            pos.insert(*p, k);
        }
        for (k, p) in it.pairs.iter().enumerate() {
            if let SExp::Pair(l, r) = it.allocator.sexp(*p) {
                for ch in [l, r] {
                    if let Some(cp) = pos.get(&ch)
                        && *cp >= k
                    {
                        return Err("pairs not in post-order".into());
                    }
                }
            }
        }
        Ok(())
    });
    let _ = INode::A(vec![]);
    match r {
        Ok(Ok(())) => {
            let dup_atoms = src_atoms > atom_vals.len();
            let dup_pairs = src_pairs > pair_vals.len();
            Verdict::pass(dup_atoms && dup_pairs)
                .label(if dup_atoms { "dup atoms" } else { "no dup atoms" })
                .label(if dup_pairs { "dup sub-trees" } else { "no dup sub-trees" })
        }
        Ok(Err(m)) => Verdict::fail(format!("{m}\n source {}", crate::dag::dag_hex(d, 300))),
        Err(p) => Verdict::fail(format!("panic: {p}")),
    }
}

pub fn run(r: &mut Runner) {
    r.rule = "generated DAGs with heavy sharing and value-equal atoms in different representations; non-trivial = source has duplicate atoms and duplicate (value-equal, separately allocated) sub-trees; distinct by tree. \
        Oracle: independent hash-consing count of distinct atom values / sub-trees, independent tree hash, pairwise distinctness."
        .into();
    let cfg = TreeCfg { max_nodes: 70, max_atom: 40, reprs: true, dup_atoms: 60, deep: 3000 };
    let n = r.n(20_000, 600_000);
    r.run_part(
        "trees",
        n,
        500,
        |t: &mut Tape| {
            let d = gen_tree(t, &cfg);
            // half of the cases: graft a value-equal copy of the tree next to itself
            if t.flip() {
                let mut d2 = d.clone();
                let r1 = d2.root();
                let r2 = d2.append(&d);
                if t.flip() {
                    d2.pair(r1, r2);
                } else {
                    let x = d2.atom(&[7, 7]);
                    let p = d2.pair(x, r2);
                    d2.pair(r1, p);
                }
                TreeCase { tree: d2 }
            } else {
                TreeCase { tree: d }
            }
        },
        test_tree,
    );
    r.require_label("dup sub-trees", 2000);
}
