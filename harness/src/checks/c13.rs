//! C13 — allocator limits are enforced exactly.

use crate::checks::alloc_sm::{Cfg, MAX_PAIRS, gen_case, run_case};
use crate::dag::{Interner, build};
use crate::engine::{Runner, Verdict, guard};
use crate::r#gen::trees::{TreeCfg, gen_tree};
use crate::tape::Tape;
use crate::util::{err_kind, hexbytes};
use clvmr::allocator::Allocator;
use clvmr::serde::{node_from_bytes_backrefs, node_from_bytes_backrefs_old, node_to_bytes_backrefs_limit};
use serde::{Deserialize, Serialize};

#[derive(Serialize, Deserialize, Clone, Debug)]
pub struct DecCase {
    #[serde(with = "hexbytes")]
    pub b: Vec<u8>,
    pub pairs_room: u32,
}

/// (c) both back-reference decoders in equally pre-loaded allocators
pub fn test_dec(c: &DecCase) -> Verdict {
    let run = |old: bool| {
        guard(|| {
            let mut a = Allocator::new();
            a.add_ghost_pair((MAX_PAIRS - c.pairs_room as u64) as usize).expect("preload");
            let r = if old { node_from_bytes_backrefs_old(&mut a, &c.b) } else { node_from_bytes_backrefs(&mut a, &c.b) };
            let pc = a.pair_count() as u64;
            match r {
                Ok(n) => {
                    let mut i = Interner::new();
                    let id = i.node(&a, n);
                    (Ok(i.to_hex(id, 1 << 16)), pc)
                }
                Err(e) => (Err(err_kind(&e)), pc),
            }
        })
    };
    let (new, old) = match (run(false), run(true)) {
        (Ok(n), Ok(o)) => (n, o),
        (n, o) => return Verdict::fail(format!("decoder panicked: current={:?} legacy={:?}", n.err(), o.err())),
    };
    for (nm, (_, pc)) in [("current", &new), ("legacy", &old)] {
        if *pc > MAX_PAIRS {
            return Verdict::fail(format!("{nm} decoder left pair_count {pc} > {MAX_PAIRS}"));
        }
    }
    if new.0.is_ok() != old.0.is_ok() || (new.0.is_ok() && new.0 != old.0) {
        return Verdict::fail(format!(
            "with {} pairs of room the decoders disagree on {}: current={:?} legacy={:?}",
            c.pairs_room,
            crate::util::hexs(&c.b),
            new.0.as_ref().map(|_| "Ok").map_err(|e| e.clone()),
            old.0.as_ref().map(|_| "Ok").map_err(|e| e.clone())
        ));
    }
    let capped = matches!(&new.0, Err(k) if k == "TooManyPairs");
    Verdict::pass(true).label(if capped { "dec: too many pairs" } else if new.0.is_ok() { "dec: ok" } else { "dec: other error" })
}

/// (b) programs in allocators close to their caps; the three counts are sampled before and after every operator call
#[derive(Serialize, Deserialize, Clone, Debug)]
pub struct ProgCapCase {
    pub c: crate::checks::progcase::ProgCase,
    /// distance of the pre-loaded allocator from each cap, relative to the peak the program reaches when unconstrained
    /// (peak + slack, slack may be negative)
    pub atom_slack: i32,
    pub pair_slack: i32,
    pub heap_slack: i32,
}

struct Sampler {
    inner: clvmr::chia_dialect::ChiaDialect,
    peak: std::cell::Cell<(usize, usize, usize)>,
    /// bytes copied to the heap by substr calls on inline (small-integer) atoms whose slice is not itself
    /// inline-representable: the mechanism of known finding F5 (counted and not limit-checked)
    f5_bytes: std::cell::Cell<usize>,
}

impl Sampler {
    fn sample(&self, a: &Allocator) {
        let p = self.peak.get();
        self.peak.set((p.0.max(a.atom_count()), p.1.max(a.pair_count()), p.2.max(a.heap_size())));
    }
}

impl Sampler {
    fn note_inline_substr(&self, a: &Allocator, args: clvmr::NodePtr) {
        use clvmr::allocator::SExp;
        let mut items = Vec::new();
        let mut cur = args;
        while let SExp::Pair(f, r) = a.sexp(cur) {
            items.push(f);
            cur = r;
        }
        if items.len() < 2 || items.len() > 3 || items.iter().any(|n| matches!(a.sexp(*n), SExp::Pair(..))) {
            return;
        }
        if a.small_number(items[0]).is_none() {
            return; // heap-stored parent: the slice is a free view
        }
        let bytes = a.atom(items[0]).as_ref().to_vec();
        let idx = |n: clvmr::NodePtr| -> Option<usize> {
            let b = a.atom(n);
            let b = b.as_ref();
            if b.len() > 4 || b.first().is_some_and(|x| x & 0x80 != 0) {
                return None;
            }
            Some(b.iter().fold(0usize, |acc, x| (acc << 8) | *x as usize))
        };
        let Some(start) = idx(items[1]) else { return };
        let end = if items.len() == 3 {
            match idx(items[2]) {
                Some(e) => e,
                None => return,
            }
        } else {
            bytes.len()
        };
        if start > end || end > bytes.len() {
            return;
        }
        let slice = &bytes[start..end];
        // inline-representable = minimal encoding of a non-negative integer below 2^26 (empty = 0)
        let inline = slice.is_empty()
            || (slice[0] & 0x80 == 0 && !(slice[0] == 0 && (slice.len() == 1 || slice[1] & 0x80 == 0)) && slice.len() <= 4 && slice.iter().fold(0u64, |acc, x| (acc << 8) | *x as u64) < (1 << 26));
        if !inline {
            self.f5_bytes.set(self.f5_bytes.get() + slice.len());
        }
    }
}

impl clvmr::dialect::Dialect for Sampler {
    fn quote_kw(&self) -> u32 {
        self.inner.quote_kw()
    }
    fn apply_kw(&self) -> u32 {
        self.inner.apply_kw()
    }
    fn softfork_kw(&self) -> u32 {
        self.inner.softfork_kw()
    }
    fn softfork_extension(&self, ext: u32) -> clvmr::dialect::OperatorSet {
        self.inner.softfork_extension(ext)
    }
    fn flags(&self) -> clvmr::chia_dialect::ClvmFlags {
        self.inner.flags()
    }
    fn gc_candidate(&self, a: &Allocator, op: clvmr::NodePtr) -> bool {
        self.inner.gc_candidate(a, op)
    }
    fn op(&self, a: &mut Allocator, op: clvmr::NodePtr, args: clvmr::NodePtr, max_cost: u64, ext: clvmr::dialect::OperatorSet) -> clvmr::reduction::Response {
        self.sample(a);
        if a.atom_len(op) == 1 && a.atom(op).as_ref() == [12] {
            self.note_inline_substr(a, args);
        }
        let r = self.inner.op(a, op, args, max_cost, ext);
        self.sample(a);
        r
    }
    fn allow_unknown_ops(&self) -> bool {
        self.inner.allow_unknown_ops()
    }
}

pub fn test_prog_cap(c: &ProgCapCase) -> Verdict {
    use crate::checks::alloc_sm::MAX_ATOMS;
    use crate::util::{Out, to_out};
    let pc = &c.c;
    if !pc.p.prog.is_valid() || !pc.p.env.is_valid() {
        return Verdict::discard();
    }
    let budget = if crate::checks::progcase::safe_unlimited(&pc.p) { 0 } else { crate::checks::progcase::BIG_BUDGET / 4 };
    let mut i = Interner::new();
    // 1. unconstrained twin: outcome and sampled peaks
    let mut a = Allocator::new();
    let (Ok(p), Ok(e)) = (build(&mut a, &pc.p.prog), build(&mut a, &pc.p.env)) else { return Verdict::discard() };
    // (the twin runs without ENABLE_GC: reclamation is unobservable in the reported counts, so the counts an
    // unconstrained non-collecting run reaches are what the caps have to be enforced against)
    let d = Sampler { inner: clvmr::chia_dialect::ChiaDialect::new(crate::util::flags(pc.flags & !crate::util::F_ENABLE_GC)), peak: Default::default(), f5_bytes: Default::default() };
    d.sample(&a);
    let r = guard(|| clvmr::run_program::run_program(&mut a, &d, p, e, budget));
    d.sample(&a);
    let roomy = to_out(&a, &mut i, r);
    let roomy_counts = crate::util::counts(&a);
    if let Out::Panic(m) = &roomy {
        return Verdict::fail(format!("run_program panicked: {m}\n {}", crate::checks::progcase::show_case(pc)));
    }
    let peak = d.peak.get();
    // 2. the same run in an allocator whose caps are `slack` away from those peaks
    let room_atoms = (peak.0 as i64 + c.atom_slack as i64).max(2) as u64;
    let room_pairs = (peak.1 as i64 + c.pair_slack as i64).max(0) as u64;
    let limit = (peak.2 as i64 + c.heap_slack as i64).max(1) as usize;
    let mut a = Allocator::new_limited(limit);
    // the fresh allocator already holds 2 atoms (nil, one); pre-load the rest as ghosts
    if a.add_ghost_atom((MAX_ATOMS - room_atoms) as usize).is_err() || a.add_ghost_pair((MAX_PAIRS - room_pairs) as usize).is_err() {
        return Verdict::discard();
    }
    let (p, e) = match (build(&mut a, &pc.p.prog), build(&mut a, &pc.p.env)) {
        (Ok(p), Ok(e)) => (p, e),
        _ => return Verdict::pass(false).label("cap hit while building the program"),
    };
    let d = Sampler { inner: clvmr::chia_dialect::ChiaDialect::new(crate::util::flags(pc.flags)), peak: Default::default(), f5_bytes: Default::default() };
    d.sample(&a);
    let r = guard(|| clvmr::run_program::run_program(&mut a, &d, p, e, budget));
    d.sample(&a);
    let capped = to_out(&a, &mut i, r);
    let capped_counts = crate::util::counts(&a);
    let seen = d.peak.get();
    let ctx = || format!("caps: atoms {MAX_ATOMS} pairs {MAX_PAIRS} heap {limit}; room left for (atoms, pairs) = ({room_atoms}, {room_pairs}); unconstrained peaks (atoms,pairs,heap) = {peak:?}\n {}", crate::checks::progcase::show_case(pc));
    if let Out::Panic(m) = &capped {
        return Verdict::fail(format!("run_program panicked near the caps: {m}\n {}", ctx()));
    }
    if seen.0 as u64 > MAX_ATOMS || seen.1 as u64 > MAX_PAIRS || seen.2 > limit {
        let msg = format!("a count exceeded its cap during the run: observed maxima (atoms,pairs,heap) = {seen:?}\n {}", ctx());
        // known finding F5 at program level: the excess is explained by substr slices of inline atoms copied to the heap unchecked
        let f5 = d.f5_bytes.get();
        if seen.0 as u64 <= MAX_ATOMS && seen.1 as u64 <= MAX_PAIRS && f5 > 0 && seen.2 - limit <= f5 {
            return Verdict::fail_sig(format!("{msg}\n ({f5} bytes were copied by substr of inline atoms)"), "substr-of-inline-atom-copies-and-counts-slice");
        }
        return Verdict::fail(msg);
    }
    let cap_err = matches!(&capped, Out::Err { kind, .. } if kind == "TooManyAtoms" || kind == "TooManyPairs" || kind == "OutOfMemory");
    // the unconstrained run reached a count the capped allocator cannot hold: the capped run must have hit a cap
    let must_fail = peak.0 as u64 > room_atoms || peak.1 as u64 > room_pairs || peak.2 > limit;
    if must_fail && !cap_err {
        return Verdict::fail(format!("the program needs more than the caps allow but the capped run did not fail on a cap: {}\n {}", capped.show(&i), ctx()));
    }
    // (the converse - "fails on a cap only when it would exceed" - is decided exactly in the histories part; here the
    // sampled peaks are lower bounds, because run_program also allocates outside operator calls)
    // Reclamation may not move a cap: the same capped allocator without ENABLE_GC must give the same outcome
    if pc.flags & crate::util::F_ENABLE_GC != 0 {
        let mut a2 = Allocator::new_limited(limit);
        if a2.add_ghost_atom((MAX_ATOMS - room_atoms) as usize).is_ok()
            && a2.add_ghost_pair((MAX_PAIRS - room_pairs) as usize).is_ok()
            && let (Ok(p2), Ok(e2)) = (build(&mut a2, &pc.p.prog), build(&mut a2, &pc.p.env))
        {
            let d2 = clvmr::chia_dialect::ChiaDialect::new(crate::util::flags(pc.flags & !crate::util::F_ENABLE_GC));
            let r2 = guard(|| clvmr::run_program::run_program(&mut a2, &d2, p2, e2, budget));
            let plain = to_out(&a2, &mut i, r2);
            if plain != capped {
                return Verdict::fail(format!(
                    "with the same caps the run gives {} with ENABLE_GC and {} without: reclamation moved a cap\n {}",
                    capped.show(&i),
                    plain.show(&i),
                    ctx()
                ));
            }
        }
    }
    // caps that are not hit are unobservable
    if !cap_err && capped != roomy {
        return Verdict::fail(format!("no cap was hit, yet the outcome differs from the unconstrained run: capped {} unconstrained {}\n {}", capped.show(&i), roomy.show(&i), ctx()));
    }
    // ... including in the accounting itself: the counts reported afterwards are those of the unconstrained
    // (non-collecting) run plus the pre-loaded ghosts
    if !cap_err && capped.is_ok() {
        let pre_atoms = (MAX_ATOMS - room_atoms) as usize;
        let pre_pairs = (MAX_PAIRS - room_pairs) as usize;
        let expect = (roomy_counts.0 + pre_atoms, roomy_counts.1 + pre_pairs, roomy_counts.2);
        if capped_counts != expect && d.f5_bytes.get() == 0 {
            return Verdict::fail(format!(
                "no cap was hit, yet the counts reported after the run (atoms,pairs,heap) = {capped_counts:?} differ from those of the unconstrained run plus the pre-load {expect:?}\n {}",
                ctx()
            ));
        }
    }
    let at_cap = seen.0 as u64 == MAX_ATOMS || seen.1 as u64 == MAX_PAIRS || seen.2 == limit;
    let mut v = Verdict::pass(cap_err || at_cap);
    v = v.label(if cap_err { format!("prog cap:{}", capped.kind()) } else if at_cap { "prog: reached a cap exactly".to_string() } else { "prog: below caps".to_string() });
    if pc.flags & crate::util::F_ENABLE_GC != 0 {
        v = v.label("prog: gc");
    }
    v
}

fn gen_prog_cap(t: &mut Tape) -> ProgCapCase {
    let cfg = crate::r#gen::programs::ProgCfg { mutate_pct: 10, raw_pct: 2, reprs: true, env_big_pct: 40, max_depth: 5, ..Default::default() };
    let mut c = crate::checks::progcase::gen_prog_case(t, &cfg);
    if t.chance(1, 2) {
        c.p = crate::checks::c04::gen_gc_shaped(t);
    }
    if t.chance(1, 2) {
        c.flags |= crate::util::F_ENABLE_GC;
    }
    let slack = |t: &mut Tape, unit: i32| -> i32 {
        match t.below(6) {
            0 => 0,
            1 => -1 - t.below(3) as i32,
            2 => 1 + t.below(2) as i32,
            3 => -(t.below(40) as i32) * unit,
            _ => 1000 * unit,
        }
    };
    ProgCapCase { c, atom_slack: slack(t, 1), pair_slack: slack(t, 1), heap_slack: slack(t, 16) }
}

pub fn run(r: &mut Runner) {
    r.rule = "part histories: allocator histories (as C12) started from allocators with heap limits 0..4096 and ghost counters pre-loaded to within 0..50 of the 62,500,000 caps; the reference accounting predicts per call success or the cap error, \
        a failed call must leave counts unchanged, and counts never exceed a cap. Non-trivial = at least one call failed on a cap and at least one succeeded ending exactly at a cap; distinct by history. \
        part decoders: current vs legacy back-reference decoder in equally pre-loaded allocators (same acceptance, never above the cap). part programs: generated programs (incl. the heap-reclamation shaped family, with and without ENABLE_GC) are first run unconstrained while a dialect wrapper samples the three counts before and after every operator call; the same program is then run in an allocator pre-loaded with ghost atoms/pairs and a heap limit placed 0, +-1..3 or up to 40 units around those peaks: no sampled count may exceed a cap, a program whose unconstrained peak exceeds a cap must fail with a cap error, and a run that hits no cap must equal the unconstrained run. Non-trivial = a cap error occurred or a count reached its cap exactly."
        .into();
    let n = r.n(150_000, 4_000_000);
    r.run_part(
        "histories",
        n,
        400,
        |t: &mut Tape| gen_case(t, true),
        |c| match run_case(c, &Cfg { contents: false, counters: true }) {
            Ok(o) => {
                let mut l = o.labels.clone();
                l.sort();
                l.dedup();
                Verdict::pass(o.cap_failures > 0 && o.ok_at_cap > 0).with_labels(l).label(if o.ok_at_cap > 0 { "ended exactly at a cap" } else { "never at cap" })
            }
            Err(v) => v,
        },
    );
    let n = r.n(30_000, 600_000);
    r.run_part(
        "decoders",
        n,
        300,
        |t: &mut Tape| {
            let cfg = TreeCfg { max_nodes: 30, max_atom: 20, reprs: false, dup_atoms: 60, deep: 0 };
            let d = gen_tree(t, &cfg);
            let mut a = Allocator::new();
            let b = match build(&mut a, &d) {
                Ok(n) => node_to_bytes_backrefs_limit(&a, n, 1 << 24).unwrap_or_else(|_| vec![0x80]),
                Err(_) => vec![0x80],
            };
            // room around the number of pairs the legacy decoder needs (two per token roughly)
            let need = 2 * d.n.len() as u32;
            let room = match t.below(3) {
                0 => t.below(need + 4),
                1 => need.saturating_sub(t.below(6)),
                _ => t.below(12),
            };
            DecCase { b, pairs_room: room }
        },
        test_dec,
    );
    let n = r.n(40_000, 1_000_000);
    r.run_part("programs", n, 700, gen_prog_cap, test_prog_cap);
    for l in ["prog cap:TooManyAtoms", "prog cap:TooManyPairs", "prog cap:OutOfMemory", "prog: reached a cap exactly", "prog: gc"] {
        r.require_label(l, 50);
    }
    for l in ["cap:TooManyAtoms", "cap:TooManyPairs", "cap:OutOfMemory", "ended exactly at a cap", "dec: too many pairs", "dec: ok"] {
        r.require_label(l, 100);
    }
}
