//! C13 — allocator limits are enforced exactly.

use crate::checks::alloc_sm::{Cfg, MAX_PAIRS, gen_case, run_case};
use crate::dag::{Interner, build};
use crate::engine::{Runner, Verdict, guard};
use crate::r#gen::trees::{TreeCfg, gen_tree};
use crate::tape::Tape;
use crate::util::{err_kind, hexbytes};
use clvmr::allocator::Allocator;
use clvmr::serde::{node_from_bytes_backrefs, node_from_bytes_backrefs_old, node_to_bytes_backrefs_limit};
use serde::{Deserialize, Serialize};

#[derive(Serialize, Deserialize, Clone, Debug)]
pub struct DecCase {
    #[serde(with = "hexbytes")]
    pub b: Vec<u8>,
    pub pairs_room: u32,
}

/// (c) both back-reference decoders in equally pre-loaded allocators
pub fn test_dec(c: &DecCase) -> Verdict {
    let run = |old: bool| {
        guard(|| {
            let mut a = Allocator::new();
            a.add_ghost_pair((MAX_PAIRS - c.pairs_room as u64) as usize).expect("preload");
            let r = if old { node_from_bytes_backrefs_old(&mut a, &c.b) } else { node_from_bytes_backrefs(&mut a, &c.b) };
            let pc = a.pair_count() as u64;
            match r {
                Ok(n) => {
                    let mut i = Interner::new();
                    let id = i.node(&a, n);
                    (Ok(i.to_hex(id, 1 << 16)), pc)
                }
                Err(e) => (Err(err_kind(&e)), pc),
            }
        })
    };
    let (new, old) = match (run(false), run(true)) {
        (Ok(n), Ok(o)) => (n, o),
        (n, o) => return Verdict::fail(format!("decoder panicked: current={:?} legacy={:?}", n.err(), o.err())),
    };
    for (nm, (_, pc)) in [("current", &new), ("legacy", &old)] {
        if *pc > MAX_PAIRS {
            return Verdict::fail(format!("{nm} decoder left pair_count {pc} > {MAX_PAIRS}"));
        }
    }
    if new.0.is_ok() != old.0.is_ok() || (new.0.is_ok() && new.0 != old.0) {
        return Verdict::fail(format!(
            "with {} pairs of room the decoders disagree on {}: current={:?} legacy={:?}",
            c.pairs_room,
            crate::util::hexs(&c.b),
            new.0.as_ref().map(|_| "Ok").map_err(|e| e.clone()),
            old.0.as_ref().map(|_| "Ok").map_err(|e| e.clone())
        ));
    }
    let capped = matches!(&new.0, Err(k) if k == "TooManyPairs");
    Verdict::pass(true).label(if capped { "dec: too many pairs" } else if new.0.is_ok() { "dec: ok" } else { "dec: other error" })
}

pub fn run(r: &mut Runner) {
    r.rule = "part histories: allocator histories (as C12) started from allocators with heap limits 0..4096 and ghost counters pre-loaded to within 0..50 of the 62,500,000 caps; the reference accounting predicts per call success or the cap error, \
        a failed call must leave counts unchanged, and counts never exceed a cap. Non-trivial = at least one call failed on a cap and at least one succeeded ending exactly at a cap; distinct by history. \
        part decoders: current vs legacy back-reference decoder in equally pre-loaded allocators (same acceptance, never above the cap). (Program mode: see part programs when built with the diag variant.)"
        .into();
    let n = r.n(150_000, 4_000_000);
    r.run_part(
        "histories",
        n,
        400,
        |t: &mut Tape| gen_case(t, true),
        |c| match run_case(c, &Cfg { contents: false, counters: true }) {
            Ok(o) => {
                let mut l = o.labels.clone();
                l.sort();
                l.dedup();
                Verdict::pass(o.cap_failures > 0 && o.ok_at_cap > 0).with_labels(l).label(if o.ok_at_cap > 0 { "ended exactly at a cap" } else { "never at cap" })
            }
            Err(v) => v,
        },
    );
    let n = r.n(30_000, 600_000);
    r.run_part(
        "decoders",
        n,
        300,
        |t: &mut Tape| {
            let cfg = TreeCfg { max_nodes: 30, max_atom: 20, reprs: false, dup_atoms: 60, deep: 0 };
            let d = gen_tree(t, &cfg);
            let mut a = Allocator::new();
            let b = match build(&mut a, &d) {
                Ok(n) => node_to_bytes_backrefs_limit(&a, n, 1 << 24).unwrap_or_else(|_| vec![0x80]),
                Err(_) => vec![0x80],
            };
            // room around the number of pairs the legacy decoder needs (two per token roughly)
            let need = 2 * d.n.len() as u32;
            let room = match t.below(3) {
                0 => t.below(need + 4),
                1 => need.saturating_sub(t.below(6)),
                _ => t.below(12),
            };
            DecCase { b, pairs_room: room }
        },
        test_dec,
    );
    for l in ["cap:TooManyAtoms", "cap:TooManyPairs", "cap:OutOfMemory", "ended exactly at a cap", "dec: too many pairs", "dec: ok"] {
        r.require_label(l, 100);
    }
}
