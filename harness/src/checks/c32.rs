//! C32 — cryptographic operators agree with independent implementations.
//!
//! Oracles: `refhash` (own SHA-256 / Keccak-256), `refcrypto` (own field, curve, encoding
//! and ECDSA code over BigUint). Pairing-based decisions are obtained without computing
//! pairings from known discrete logarithms (all points are generated as k*G).

use crate::checks::c25::op_table;
use crate::dag::{Dag, Repr, build};
use crate::engine::{Runner, Verdict, guard};
use crate::model::optests;
use crate::model::refcrypto as rc;
use crate::model::refhash::{keccak256, sha256};
use crate::model::refvm::{int_from_bytes, int_to_bytes};
use crate::tape::Tape;
use crate::util::{err_kind, flag_names, flags, hexs};
use clvmr::allocator::Allocator;
use num_bigint::{BigInt, BigUint, Sign};
use num_traits::{Num, One, Zero};
use serde::{Deserialize, Serialize};

const NEW_COST: u32 = 0x2000;
const RELAXED: u32 = 0x0008;

// ------------------------------------------------------------- arguments --

#[derive(Serialize, Deserialize, Clone, Debug, PartialEq)]
#[serde(tag = "t")]
pub enum PA {
    /// k*G1 (k decimal); 0 is the point at infinity
    G1 { k: String },
    G2 { k: String },
    /// a point on the curve outside the prime-order subgroup
    G1Off { seed: u64 },
    G2Off { seed: u64 },
    /// a valid encoding of k*G, then damaged
    Tamper { g2: bool, k: String, how: u8, x: u32 },
    Raw {
        #[serde(with = "crate::util::hexbytes")]
        b: Vec<u8>,
    },
    /// integer atom with `pad` redundant sign-extension bytes in front
    Int { v: String, pad: u8 },
    Pair,
}

#[derive(Serialize, Deserialize, Clone, Debug, PartialEq)]
pub struct Arg {
    pub a: PA,
    /// 0 natural, 1 forced heap copy, 2 view into a longer atom
    pub r: u8,
}

fn big(s: &str) -> BigUint {
    BigUint::from_str_radix(s, 10).unwrap_or_default()
}

fn g1k(k: &BigUint) -> rc::Pt<rc::F1> {
    let c = rc::bls();
    c.e1.mul(&c.g1, k)
}

fn g2k(k: &BigUint) -> rc::Pt<rc::F2> {
    let c = rc::bls();
    c.e2.mul(&c.g2, k)
}

/// bytes of an argument (None = a pair) and, for valid points, the discrete logarithm if it is known
pub fn arg_bytes(a: &PA) -> (Option<Vec<u8>>, Option<BigUint>) {
    let r = &rc::bls().r;
    match a {
        PA::G1 { k } => {
            let k = big(k);
            (Some(rc::g1_encode(&g1k(&k)).to_vec()), Some(k % r))
        }
        PA::G2 { k } => {
            let k = big(k);
            (Some(rc::g2_encode(&g2k(&k)).to_vec()), Some(k % r))
        }
        PA::G1Off { seed } => (Some(rc::g1_off_subgroup(*seed).to_vec()), None),
        PA::G2Off { seed } => (Some(rc::g2_off_subgroup(*seed).to_vec()), None),
        PA::Tamper { g2, k, how, x } => {
            let kk = big(k);
            let mut b = if *g2 { rc::g2_encode(&g2k(&kk)).to_vec() } else { rc::g1_encode(&g1k(&kk)).to_vec() };
            let n = b.len();
            let mut log = None;
            match how % 10 {
                0 => b[0] &= 0x7f,
                1 => b[0] |= 0x40,
                2 => {
                    // flipped sort flag: the negated point (still valid) unless infinity
                    if b[0] & 0x40 == 0 {
                        b[0] ^= 0x20;
                        log = Some((r - (&kk % r)) % r);
                    } else {
                        b[0] |= 0x20;
                    }
                }
                3 => {
                    // x + p when it still fits in 381 bits, else x := p + (x mod 2^64): not a field element
                    let p = rc::bls().p;
                    let flagbits = b[0] & 0xe0;
                    let mut xb = b[..48].to_vec();
                    xb[0] &= 0x1f;
                    let xv = BigUint::from_bytes_be(&xb);
                    let mut nv = &xv + p;
                    if nv.bits() > 381 {
                        nv = p + (xv % BigUint::from(u64::MAX));
                    }
                    let e = nv.to_bytes_be();
                    let mut o = vec![0u8; 48];
                    o[48 - e.len()..].copy_from_slice(&e);
                    o[0] |= flagbits;
                    b[..48].copy_from_slice(&o);
                }
                4 => {
                    b.truncate(n - 1);
                }
                5 => b.push((*x & 0xff) as u8),
                6 => {
                    let bit = (*x as usize) % (n * 8 - 3) + 3;
                    b[bit / 8] ^= 0x80 >> (bit % 8);
                }
                7 => {
                    b = vec![0u8; n];
                    b[0] = if x % 2 == 0 { 0xc0 } else { 0xe0 };
                    if x % 3 != 0 {
                        b[n - 1 - (*x as usize / 6) % (n - 1)] |= 1 << (x % 8);
                    }
                    if b[0] == 0xc0 && b[1..].iter().all(|v| *v == 0) {
                        log = Some(BigUint::zero());
                    }
                }
                8 => b = vec![0u8; n],
                _ => {
                    // the other group's size
                    b = if *g2 { rc::g1_encode(&g1k(&kk)).to_vec() } else { rc::g2_encode(&g2k(&kk)).to_vec() };
                }
            }
            (Some(b), log)
        }
        PA::Raw { b } => (Some(b.clone()), None),
        PA::Int { v, pad } => {
            let v = BigInt::from_str_radix(v, 10).unwrap_or_default();
            let mut b = int_to_bytes(&v);
            let fill = if v.sign() == Sign::Minus { 0xff } else { 0x00 };
            for _ in 0..*pad {
                b.insert(0, fill);
            }
            (Some(b), None)
        }
        PA::Pair => (None, None),
    }
}

fn args_dag(args: &[Arg]) -> Dag {
    let mut d = Dag::new();
    let mut items = Vec::new();
    for a in args {
        let (b, _) = arg_bytes(&a.a);
        let id = match b {
            Some(b) => d.atom_r(&b, match a.r % 3 { 0 => Repr::Nat, 1 => Repr::Heap, _ => Repr::View }),
            None => {
                let n = d.nil();
                let o = d.atom(&[1]);
                d.pair(o, n)
            }
        };
        items.push(id);
    }
    d.list(&items);
    d
}

/// what the operator did
#[derive(Debug, PartialEq, Clone)]
pub enum Got {
    Value(Vec<u8>),
    Tree,
    Reject(String),
    Panic(String),
}

pub fn call(op: &str, d: &Dag, fl: u32) -> Got {
    let Some((_, f)) = op_table().into_iter().find(|(n, _)| *n == op) else {
        return Got::Panic(format!("no operator {op}"));
    };
    let r = guard(|| {
        let mut a = Allocator::new();
        let args = build(&mut a, d).expect("build");
        let once = |a: &mut Allocator| match f(a, args, u64::MAX, flags(fl)) {
            Ok(red) => match a.sexp(red.1) {
                clvmr::allocator::SExp::Atom => Got::Value(a.atom(red.1).as_ref().to_vec()),
                _ => Got::Tree,
            },
            Err(e) => Got::Reject(format!("{}: {e}", err_kind(&e))),
        };
        // the decision may not depend on what the same allocator has seen before (validated-point caches):
        // the identical call is repeated in the same allocator
        let first = once(&mut a);
        let second = once(&mut a);
        if first != second {
            return Got::Panic(format!("the same call repeated in the same allocator gives a different outcome: first {first:?}, then {second:?}"));
        }
        first
    });
    match r {
        Ok(g) => g,
        Err(p) => Got::Panic(p),
    }
}

#[derive(Debug, PartialEq, Clone)]
pub enum Exp {
    Value(Vec<u8>),
    Reject(&'static str),
}

fn compare(what: &str, got: &Got, exp: &Exp, ctx: &str) -> Option<Verdict> {
    match (got, exp) {
        (Got::Panic(p), _) => Some(Verdict::fail(format!("{what} misbehaved: {p}\n {ctx}"))),
        (Got::Value(g), Exp::Value(e)) if g == e => None,
        (Got::Reject(_), Exp::Reject(_)) => None,
        (Got::Value(g), Exp::Value(e)) => Some(Verdict::fail(format!("{what} returned {} but the independent implementation gives {}\n {ctx}", hexs(g), hexs(e)))),
        (Got::Tree, _) => Some(Verdict::fail(format!("{what} returned a pair\n {ctx}"))),
        (Got::Value(g), Exp::Reject(why)) => Some(Verdict::fail(format!("{what} accepted (returned {}) but must reject: {why}\n {ctx}", hexs(g)))),
        (Got::Reject(m), Exp::Value(e)) => Some(Verdict::fail(format!("{what} rejected ({m}) but the independent implementation accepts and gives {}\n {ctx}", hexs(e)))),
    }
}

// -------------------------------------------------------- part 1: hashes --

#[derive(Serialize, Deserialize, Clone, Debug)]
pub struct HashCase {
    pub op: String,
    /// None = a pair argument
    pub args: Vec<(Option<String>, u8)>,
    pub flags: u32,
}

fn amount_ok(b: &[u8]) -> bool {
    // a coin amount is the minimal encoding of an integer 0 <= v < 2^64
    let v = int_from_bytes(b);
    v.sign() != Sign::Minus && int_to_bytes(&v) == b && v < (BigInt::one() << 64)
}

pub fn hash_expect(op: &str, args: &[Option<Vec<u8>>]) -> Exp {
    if args.iter().any(|a| a.is_none()) {
        return Exp::Reject("pair argument");
    }
    let parts: Vec<&[u8]> = args.iter().map(|a| a.as_ref().unwrap().as_slice()).collect();
    match op {
        "sha256" => Exp::Value(sha256(&parts).to_vec()),
        "keccak256" => Exp::Value(keccak256(&parts).to_vec()),
        "coinid" => {
            if parts.len() != 3 {
                return Exp::Reject("coinid takes 3 arguments");
            }
            if parts[0].len() != 32 || parts[1].len() != 32 {
                return Exp::Reject("parent / puzzle hash not 32 bytes");
            }
            if !amount_ok(parts[2]) {
                return Exp::Reject("amount is not a canonical u64");
            }
            Exp::Value(sha256(&parts).to_vec())
        }
        _ => unreachable!(),
    }
}

pub fn test_hash(c: &HashCase) -> Verdict {
    let args: Vec<Option<Vec<u8>>> = c.args.iter().map(|(a, _)| a.as_ref().map(|h| hex::decode(h).unwrap_or_default())).collect();
    let mut d = Dag::new();
    let mut items = Vec::new();
    for (k, a) in args.iter().enumerate() {
        let id = match a {
            Some(b) => d.atom_r(b, match c.args[k].1 % 3 { 0 => Repr::Nat, 1 => Repr::Heap, _ => Repr::View }),
            None => {
                let n = d.nil();
                d.pair(n, n)
            }
        };
        items.push(id);
    }
    d.list(&items);
    let exp = hash_expect(&c.op, &args);
    let got = call(&c.op, &d, c.flags);
    let ctx = format!("{} {} flags {}", c.op, crate::dag::dag_hex(&d, 800), flag_names(c.flags));
    if let Some(v) = compare(&c.op, &got, &exp, &ctx) {
        return v;
    }
    let total: usize = args.iter().flatten().map(|a| a.len()).sum();
    Verdict::pass(matches!(exp, Exp::Value(_)) && total > 0 || matches!(exp, Exp::Reject(_)) && args.len() == 3)
        .label(format!("op:{}", c.op))
        .label(if matches!(exp, Exp::Value(_)) { "accept" } else { "reject" })
}

fn gen_hash(t: &mut Tape) -> HashCase {
    let op = *t.pick(&["sha256", "keccak256", "coinid", "sha256", "keccak256"]);
    let mut args = Vec::new();
    if op == "coinid" {
        let n = match t.below(12) { 0 => 2, 1 => 4, _ => 3 };
        for k in 0..n {
            if t.chance(1, 40) {
                args.push((None, 0));
                continue;
            }
            let b = if k < 2 {
                let len = match t.below(10) { 0 => 31, 1 => 33, 2 => t.below(40) as usize, _ => 32 };
                t.bytes(len)
            } else {
                // amounts: canonical, padded, negative, 2^64 boundary, too long
                match t.below(13) {
                    0 => vec![],
                    1 => vec![0],
                    2 => int_to_bytes(&(BigInt::one() << 64)),
                    3 => int_to_bytes(&((BigInt::one() << 64) - 1)),
                    4 => int_to_bytes(&((BigInt::one() << 63) + t.below(5))),
                    5 => {
                        let mut b = int_to_bytes(&BigInt::from(t.u64()));
                        b.insert(0, 0);
                        b
                    }
                    6 => int_to_bytes(&-BigInt::from(t.below(100000))),
                    7 => {
                        let n = 1 + t.below(10) as usize;
                        t.bytes(n)
                    }
                    8 => int_to_bytes(&BigInt::from(t.below(0x10000))),
                    9 => {
                        // canonical positive integers that need 10..13 bytes (0x00 sign byte, then a byte >= 0x80)
                        let n = 9 + t.below(4) as usize;
                        let mut b = vec![0u8];
                        b.push(0x80 | (t.word() >> 25) as u8);
                        b.extend(t.bytes(n - 1));
                        b
                    }
                    _ => int_to_bytes(&BigInt::from(t.u64() >> t.below(64))),
                }
            };
            args.push((Some(hex::encode(b)), t.below(3) as u8));
        }
    } else {
        let n = t.below(6) as usize;
        for _ in 0..n {
            if t.chance(1, 30) {
                args.push((None, 0));
                continue;
            }
            let len = match t.below(12) {
                0 => 0,
                1 => 55 + t.below(10) as usize, // SHA-256 padding boundary 55/56/64
                2 => 119 + t.below(10) as usize,
                3 => 135 + t.below(4) as usize, // Keccak rate boundary 136
                4 => 271 + t.below(4) as usize,
                5 => 1000 + t.below(3000) as usize,
                _ => t.below(80) as usize,
            };
            args.push((Some(hex::encode(t.bytes(len))), t.below(3) as u8));
        }
    }
    HashCase { op: op.to_string(), args, flags: if t.flip() { NEW_COST } else { 0 } }
}

// -------------------------------------------- part 2: group operations --

#[derive(Serialize, Deserialize, Clone, Debug)]
pub struct PointCase {
    pub op: String,
    pub args: Vec<Arg>,
    pub flags: u32,
}

fn dec1(b: &Option<Vec<u8>>) -> Result<rc::Pt<rc::F1>, &'static str> {
    let Some(b) = b else { return Err("pair argument") };
    rc::g1_decode(b).map_err(|e| match e {
        rc::Reject::Length => "not 48 bytes",
        rc::Reject::Flags => "invalid flag bits",
        rc::Reject::NotInField => "x >= p",
        rc::Reject::NotOnCurve => "not on the curve",
        rc::Reject::NotInSubgroup => "not in the subgroup",
    })
}

fn dec2(b: &Option<Vec<u8>>) -> Result<rc::Pt<rc::F2>, &'static str> {
    let Some(b) = b else { return Err("pair argument") };
    rc::g2_decode(b).map_err(|e| match e {
        rc::Reject::Length => "not 96 bytes",
        rc::Reject::Flags => "invalid flag bits",
        rc::Reject::NotInField => "x >= p",
        rc::Reject::NotOnCurve => "not on the curve",
        rc::Reject::NotInSubgroup => "not in the subgroup",
    })
}

pub fn point_expect(op: &str, args: &[Option<Vec<u8>>]) -> Exp {
    let c = rc::bls();
    let scalar = |b: &Option<Vec<u8>>| -> Result<BigUint, &'static str> {
        let Some(b) = b else { return Err("pair as scalar") };
        Ok(rc::scalar_mod_r(&int_from_bytes(b)))
    };
    let r = (|| -> Result<Vec<u8>, &'static str> {
        match op {
            "point_add" | "g1_subtract" => {
                let mut acc: rc::Pt<rc::F1> = None;
                for (i, a) in args.iter().enumerate() {
                    let p = dec1(a)?;
                    acc = if op == "g1_subtract" && i > 0 { c.e1.sub(&acc, &p) } else { c.e1.add(&acc, &p) };
                }
                Ok(rc::g1_encode(&acc).to_vec())
            }
            "g2_add" | "g2_subtract" => {
                let mut acc: rc::Pt<rc::F2> = None;
                for (i, a) in args.iter().enumerate() {
                    let p = dec2(a)?;
                    acc = if op == "g2_subtract" && i > 0 { c.e2.sub(&acc, &p) } else { c.e2.add(&acc, &p) };
                }
                Ok(rc::g2_encode(&acc).to_vec())
            }
            "g1_multiply" => {
                if args.len() != 2 {
                    return Err("takes 2 arguments");
                }
                let p = dec1(&args[0])?;
                Ok(rc::g1_encode(&c.e1.mul(&p, &scalar(&args[1])?)).to_vec())
            }
            "g2_multiply" => {
                if args.len() != 2 {
                    return Err("takes 2 arguments");
                }
                let p = dec2(&args[0])?;
                Ok(rc::g2_encode(&c.e2.mul(&p, &scalar(&args[1])?)).to_vec())
            }
            "g1_negate" => {
                if args.len() != 1 {
                    return Err("takes 1 argument");
                }
                Ok(rc::g1_encode(&c.e1.neg(&dec1(&args[0])?)).to_vec())
            }
            "g2_negate" => {
                if args.len() != 1 {
                    return Err("takes 1 argument");
                }
                Ok(rc::g2_encode(&c.e2.neg(&dec2(&args[0])?)).to_vec())
            }
            "pubkey_for_exp" => {
                if args.len() != 1 {
                    return Err("takes 1 argument");
                }
                Ok(rc::g1_encode(&c.e1.mul(&c.g1, &scalar(&args[0])?)).to_vec())
            }
            _ => unreachable!(),
        }
    })();
    match r {
        Ok(v) => Exp::Value(v),
        Err(e) => Exp::Reject(e),
    }
}

pub fn test_point(c: &PointCase) -> Verdict {
    let args: Vec<Option<Vec<u8>>> = c.args.iter().map(|a| arg_bytes(&a.a).0).collect();
    let d = args_dag(&c.args);
    let exp = point_expect(&c.op, &args);
    let relaxed = c.flags & RELAXED != 0;
    if relaxed && matches!(exp, Exp::Reject(_)) && c.op.ends_with("negate") {
        // RELAXED_BLS skips point validation in the negate operators; no standard says what to do with garbage
        return Verdict::discard();
    }
    let got = call(&c.op, &d, c.flags);
    let ctx = format!("{} args [{}] flags {}", c.op, args.iter().map(|a| a.as_ref().map(|b| hexs(b)).unwrap_or("(pair)".into())).collect::<Vec<_>>().join(" "), flag_names(c.flags));
    if let Some(v) = compare(&c.op, &got, &exp, &ctx) {
        return v;
    }
    let mut v = Verdict::pass(true).label(format!("op:{}", c.op));
    v = match &exp {
        Exp::Value(_) => v.label("accept"),
        Exp::Reject(w) => v.label(format!("reject:{w}")),
    };
    for a in &c.args {
        if let PA::Tamper { how, .. } = &a.a {
            v = v.label(format!("tamper:{}", how % 10));
        }
    }
    v
}

fn gen_scalar(t: &mut Tape) -> String {
    let r = rc::bls().r.clone();
    let v: BigUint = match t.below(10) {
        0 => BigUint::zero(),
        1 => BigUint::one(),
        2 => &r - 1u32,
        3 => r.clone(),
        4 => &r + 1u32 + t.below(5),
        5 => BigUint::from(t.below(1000)),
        6 => {
            let n = 40 + t.below(30) as usize;
            BigUint::from_bytes_be(&t.bytes(n))
        }
        _ => BigUint::from_bytes_be(&t.bytes(32)),
    };
    v.to_string()
}

fn gen_int(t: &mut Tape) -> PA {
    let mag = BigInt::from_str_radix(&gen_scalar(t), 10).unwrap();
    let v = if t.chance(1, 3) { -mag } else { mag };
    PA::Int { v: v.to_string(), pad: if t.chance(1, 4) { 1 + t.below(3) as u8 } else { 0 } }
}

fn gen_point(t: &mut Tape, g2: bool, bad_pct: u32) -> PA {
    if t.chance(bad_pct, 100) {
        return match t.below(8) {
            0 => {
                if g2 { PA::G2Off { seed: t.below(50) as u64 } } else { PA::G1Off { seed: t.below(50) as u64 } }
            }
            1 => PA::Raw { b: t.bytes(if g2 { 96 } else { 48 }) },
            2 => PA::Pair,
            3 => PA::Int { v: t.below(300).to_string(), pad: 0 },
            _ => PA::Tamper { g2, k: gen_scalar(t), how: t.below(10) as u8, x: t.word() },
        };
    }
    if g2 { PA::G2 { k: gen_scalar(t) } } else { PA::G1 { k: gen_scalar(t) } }
}

fn gen_point_case(t: &mut Tape) -> PointCase {
    let op = *t.pick(&["point_add", "g1_subtract", "g1_multiply", "g1_negate", "pubkey_for_exp", "g2_add", "g2_subtract", "g2_multiply", "g2_negate"]);
    let g2 = op.starts_with("g2");
    let bad = if t.flip() { 0 } else { 25 };
    let rr = |t: &mut Tape| t.below(3) as u8;
    let mut args = Vec::new();
    match op {
        "point_add" | "g1_subtract" | "g2_add" | "g2_subtract" => {
            for _ in 0..t.below(5) {
                args.push(Arg { a: gen_point(t, g2, bad), r: rr(t) });
            }
            // P + (-P), P - P: make cancellation and doubling likely
            if args.len() >= 2 && t.chance(1, 4) {
                args[1] = args[0].clone();
            }
        }
        "g1_multiply" | "g2_multiply" => {
            args.push(Arg { a: gen_point(t, g2, bad), r: rr(t) });
            args.push(Arg { a: if t.chance(1, 20) { PA::Pair } else { gen_int(t) }, r: rr(t) });
            if t.chance(1, 20) {
                args.push(Arg { a: gen_int(t), r: 0 });
            }
        }
        "g1_negate" | "g2_negate" => {
            args.push(Arg { a: gen_point(t, g2, bad), r: rr(t) });
            if t.chance(1, 20) {
                args.push(Arg { a: gen_point(t, g2, 0), r: 0 });
            }
        }
        _ => {
            args.push(Arg { a: if t.chance(1, 20) { PA::Pair } else { gen_int(t) }, r: rr(t) });
            if t.chance(1, 20) {
                args.pop();
            }
        }
    }
    let mut fl = if t.flip() { NEW_COST } else { 0 };
    if t.chance(1, 4) {
        fl |= RELAXED;
    }
    PointCase { op: op.to_string(), args, flags: fl }
}

// --------------------------------------------------- part 3: pairing identity --

#[derive(Serialize, Deserialize, Clone, Debug)]
pub struct PairingCase {
    pub args: Vec<Arg>,
    pub flags: u32,
}

pub fn test_pairing(c: &PairingCase) -> Verdict {
    let r = &rc::bls().r;
    let ab: Vec<(Option<Vec<u8>>, Option<BigUint>)> = c.args.iter().map(|a| arg_bytes(&a.a)).collect();
    let args: Vec<Option<Vec<u8>>> = ab.iter().map(|x| x.0.clone()).collect();
    // expected decision
    let exp: Result<bool, &'static str> = (|| {
        if args.len() % 2 != 0 {
            // the points of the complete pairs are examined first, but the result is a rejection either way
            return Err("odd number of arguments");
        }
        let mut sum = BigUint::zero();
        for k in (0..args.len()).step_by(2) {
            let p = dec1(&args[k])?;
            let q = dec2(&args[k + 1])?;
            let (la, lb) = match (&ab[k].1, &ab[k + 1].1) {
                (Some(a), Some(b)) => (a.clone(), b.clone()),
                _ => {
                    // a valid point whose logarithm is unknown: infinity is the only such case we can still decide
                    if p.is_none() || q.is_none() {
                        (BigUint::zero(), BigUint::zero())
                    } else {
                        return Err("SKIP");
                    }
                }
            };
            sum = (sum + la * lb) % r;
        }
        Ok(sum.is_zero())
    })();
    if exp == Err("SKIP") {
        return Verdict::discard();
    }
    // annotation check: the claimed logarithms really produce the bytes (G1/G2 kinds do by construction)
    let d = args_dag(&c.args);
    let got = call("pairing_identity", &d, c.flags);
    let ctx = format!("bls_pairing_identity [{}] flags {}", args.iter().map(|a| a.as_ref().map(|b| hexs(b)).unwrap_or("(pair)".into())).collect::<Vec<_>>().join(" "), flag_names(c.flags));
    let want = match exp {
        Ok(true) => Exp::Value(vec![]),
        Ok(false) => Exp::Reject("the product of pairings is not the identity (sum of a_i*b_i != 0 mod r)"),
        Err(e) => Exp::Reject(e),
    };
    if let Some(v) = compare("bls_pairing_identity", &got, &want, &ctx) {
        // known finding F13: when some pair has a point at infinity as a member the operator may reject although the
        // product of pairings is the identity (e(O, Q) = e(P, O) = 1); only this false rejection is covered
        let is_inf = |a: &Option<Vec<u8>>| a.as_ref().is_some_and(|b| b[0] == 0xc0 && b[1..].iter().all(|x| *x == 0));
        if exp == Ok(true) && matches!(got, Got::Reject(_)) && args.iter().any(is_inf) {
            return Verdict::fail_sig(v.fail.map(|f| f.msg).unwrap_or_default(), "pairing-identity-false-reject-with-infinity-member");
        }
        return v;
    }
    Verdict::pass(args.len() >= 2).label(match exp {
        Ok(true) => "identity".to_string(),
        Ok(false) => "not identity".to_string(),
        Err(e) => format!("reject:{e}"),
    }).label(format!("pairs:{}", args.len() / 2))
}

fn gen_pairing(t: &mut Tape) -> PairingCase {
    let r = rc::bls().r.clone();
    let n = t.below(4) as usize; // pairs
    let mut logs: Vec<(BigUint, BigUint)> = Vec::new();
    for _ in 0..n {
        logs.push((big(&gen_scalar(t)), big(&gen_scalar(t))));
    }
    let balanced = n >= 1 && t.chance(3, 5);
    if balanced {
        // choose the last b so that sum a_i*b_i = 0 (mod r), when the last a is invertible
        let mut s = BigUint::zero();
        for (a, b) in &logs[..n - 1] {
            s = (s + a * b) % &r;
        }
        let a_last = &logs[n - 1].0 % &r;
        if !a_last.is_zero() {
            let inv = a_last.modpow(&(&r - 2u32), &r);
            let b = ((&r - s) % &r) * inv % &r;
            // optionally shift by a multiple of r (same point)
            logs[n - 1].1 = if t.chance(1, 5) { b + &r } else { b };
        }
    }
    let mut args = Vec::new();
    for (a, b) in &logs {
        args.push(Arg { a: PA::G1 { k: a.to_string() }, r: t.below(3) as u8 });
        args.push(Arg { a: PA::G2 { k: b.to_string() }, r: t.below(3) as u8 });
    }
    // damage
    match t.below(12) {
        0 if !args.is_empty() => {
            let k = t.below_usize(args.len());
            args[k].a = gen_point(t, k % 2 == 1, 100);
        }
        1 => args.push(Arg { a: PA::G1 { k: gen_scalar(t) }, r: 0 }),
        2 if args.len() >= 2 => {
            // negate one point through the sort flag (keeps the logarithm known)
            let k = t.below_usize(args.len());
            let kk = match &args[k].a {
                PA::G1 { k } | PA::G2 { k } => k.clone(),
                _ => "1".into(),
            };
            args[k].a = PA::Tamper { g2: k % 2 == 1, k: kk, how: 2, x: 0 };
        }
        3 if args.len() >= 2 => args.swap(0, 1), // G2 where G1 is expected
        _ => {}
    }
    PairingCase { args, flags: if t.flip() { NEW_COST } else { 0 } }
}

// ------------------------------------------------------------ part 4: verify --

#[derive(Serialize, Deserialize, Clone, Debug)]
pub struct VerifyCase {
    /// (secret key decimal, message hex)
    pub items: Vec<(String, String)>,
    /// 0 correct aggregate; 1 plus e*G2; 2 one message replaced when signing; 3 identity; 4 one signer missing;
    /// 5 negated; 6 damaged encoding (tamper how = x % 10)
    pub sig_mode: u8,
    pub x: u32,
    /// replace public key `idx` by this argument (invalid / other key)
    pub pk_override: Option<(u32, Arg)>,
    pub flags: u32,
}

/// H(pk || msg) in G2 with the augmented-scheme DST. Obtained from the operator under test `g2_map` and validated
/// by the independent decoder (on curve, in the subgroup); see DESIGN.md C32 for why this does not weaken the
/// accept/reject oracle of bls_verify.
fn hash_point(pk: &[u8], msg: &[u8]) -> Option<rc::Pt<rc::F2>> {
    let mut aug = pk.to_vec();
    aug.extend_from_slice(msg);
    if let Some(p) = crate::model::h2c::hash_to_g2(&aug, b"BLS_SIG_BLS12381G2_XMD:SHA-256_SSWU_RO_AUG_") {
        return Some(p);
    }
    let mut d = Dag::new();
    let m = d.atom(&aug);
    d.list(&[m]);
    match call("g2_map", &d, 0) {
        Got::Value(b) => rc::g2_decode(&b).ok(),
        _ => None,
    }
}

pub fn test_verify(c: &VerifyCase) -> Verdict {
    let cv = rc::bls();
    let r = &cv.r;
    // build the public keys and messages as they will be passed
    let mut pks: Vec<(Option<Vec<u8>>, Option<BigUint>, u8)> = Vec::new();
    let mut msgs: Vec<Vec<u8>> = Vec::new();
    for (k, (sk, m)) in c.items.iter().enumerate() {
        let msg = hex::decode(m).unwrap_or_default();
        let (b, log, rr) = match &c.pk_override {
            Some((idx, a)) if *idx as usize == k => {
                let (b, l) = arg_bytes(&a.a);
                (b, l, a.r)
            }
            _ => {
                let s = big(sk);
                (Some(rc::g1_encode(&g1k(&s)).to_vec()), Some(s % r), 0)
            }
        };
        pks.push((b, log, rr));
        msgs.push(msg);
    }
    // the honest aggregate for the keys as signed (before any override): sum sk_i * H(pk_i || m_i)
    let mut agg: rc::Pt<rc::F2> = None;
    for (k, (sk, _)) in c.items.iter().enumerate() {
        let s = big(sk) % r;
        if c.sig_mode == 4 && k == (c.x as usize) % c.items.len() {
            continue;
        }
        let pkb = rc::g1_encode(&g1k(&s)).to_vec();
        let m = if c.sig_mode == 2 && k == (c.x as usize) % c.items.len() { [msgs[k].as_slice(), b"!"].concat() } else { msgs[k].clone() };
        let Some(h) = hash_point(&pkb, &m) else { return Verdict::discard() };
        agg = cv.e2.add(&agg, &cv.e2.mul(&h, &s));
    }
    let sig_bytes: Vec<u8> = match c.sig_mode {
        1 => rc::g2_encode(&cv.e2.add(&agg, &g2k(&BigUint::from(1 + c.x % 1000)))).to_vec(),
        3 => rc::g2_encode(&None).to_vec(),
        5 => rc::g2_encode(&cv.e2.neg(&agg)).to_vec(),
        6 => {
            // damage the encoding of the correct signature
            let mut b = rc::g2_encode(&agg).to_vec();
            match c.x % 6 {
                0 => b[0] &= 0x7f,
                1 => b[0] |= 0x40,
                2 => b.truncate(95),
                3 => b[95] ^= 1,
                4 => b = rc::g2_off_subgroup(c.x as u64 % 30).to_vec(),
                _ => b.push(0),
            }
            b
        }
        _ => rc::g2_encode(&agg).to_vec(),
    };
    // expected decision: e(g1, sig) == prod e(pk_i, H(pk_i || m_i))  <=>  sig == sum log(pk_i) * H(pk_i || m_i)
    let exp: Result<bool, &'static str> = (|| {
        let sig = dec2(&Some(sig_bytes.clone()))?;
        let mut want: rc::Pt<rc::F2> = None;
        for (k, (b, log, _)) in pks.iter().enumerate() {
            let p = dec1(b)?;
            if p.is_none() {
                // KeyValidate of the BLS signature standard: the identity is not a valid public key
                return Err("public key is the identity");
            }
            let l = match log {
                Some(l) => l.clone(),
                None => return Err("SKIP"),
            };
            let Some(h) = hash_point(b.as_ref().unwrap(), &msgs[k]) else { return Err("SKIP") };
            want = cv.e2.add(&want, &cv.e2.mul(&h, &l));
        }
        Ok(sig == want)
    })();
    if exp == Err("SKIP") {
        return Verdict::discard();
    }
    let mut d = Dag::new();
    let mut items = vec![d.atom_r(&sig_bytes, match c.x % 3 { 0 => Repr::Nat, 1 => Repr::Heap, _ => Repr::View })];
    for (k, (b, _, rr)) in pks.iter().enumerate() {
        let id = match b {
            Some(b) => d.atom_r(b, match rr % 3 { 0 => Repr::Nat, 1 => Repr::Heap, _ => Repr::View }),
            None => {
                let n = d.nil();
                d.pair(n, n)
            }
        };
        items.push(id);
        items.push(d.atom(&msgs[k]));
    }
    d.list(&items);
    let got = call("bls_verify", &d, c.flags);
    let ctx = format!("bls_verify {} flags {} (sig_mode {})", crate::dag::dag_hex(&d, 2000), flag_names(c.flags), c.sig_mode);
    let want = match exp {
        Ok(true) => Exp::Value(vec![]),
        Ok(false) => Exp::Reject("signature != sum sk_i * H(pk_i || m_i)"),
        Err(e) => Exp::Reject(e),
    };
    if let Some(v) = compare("bls_verify", &got, &want, &ctx) {
        return v;
    }
    Verdict::pass(!c.items.is_empty())
        .label(match exp {
            Ok(true) => "valid".to_string(),
            Ok(false) => "invalid signature".to_string(),
            Err(e) => format!("reject:{e}"),
        })
        .label(format!("signers:{}", c.items.len()))
        .label(format!("sig_mode:{}", c.sig_mode))
}

fn gen_verify(t: &mut Tape) -> VerifyCase {
    let n = match t.below(8) { 0 => 0, 1 | 2 | 3 => 1, 4 | 5 => 2, _ => 3 } as usize;
    let mut items = Vec::new();
    for _ in 0..n {
        let sk = match t.below(10) {
            0 => "0".to_string(),
            1 => "1".to_string(),
            _ => gen_scalar(t),
        };
        let len = match t.below(6) { 0 => 0, 1 => 32, _ => t.below(70) as usize };
        items.push((sk, hex::encode(t.bytes(len))));
    }
    // the same (pk, msg) twice is legal for the operator
    if items.len() >= 2 && t.chance(1, 6) {
        items[1] = items[0].clone();
    }
    let sig_mode = if n == 0 { *t.pick(&[3u8, 3, 1, 6]) } else { *t.pick(&[0u8, 0, 0, 0, 1, 2, 3, 4, 5, 6]) };
    let pk_override = if n > 0 && t.chance(1, 6) {
        let idx = t.below(n as u32);
        let a = if t.chance(1, 3) { PA::G1 { k: gen_scalar(t) } } else { gen_point(t, false, 100) };
        Some((idx, Arg { a, r: t.below(3) as u8 }))
    } else {
        None
    };
    VerifyCase { items, sig_mode, x: t.word(), pk_override, flags: if t.flip() { NEW_COST } else { 0 } }
}

// -------------------------------------------------------------- part 5: maps --

#[derive(Serialize, Deserialize, Clone, Debug)]
pub struct MapCase {
    pub g2: bool,
    pub msg: String,
    /// None = default DST
    pub dst: Option<String>,
    pub flags: u32,
}

pub fn test_map(c: &MapCase) -> Verdict {
    let op = if c.g2 { "g2_map" } else { "g1_map" };
    let msg = hex::decode(&c.msg).unwrap_or_default();
    let default: &[u8] = if c.g2 { b"BLS_SIG_BLS12381G2_XMD:SHA-256_SSWU_RO_AUG_" } else { b"BLS_SIG_BLS12381G1_XMD:SHA-256_SSWU_RO_AUG_" };
    let dst = c.dst.as_ref().map(|d| hex::decode(d).unwrap_or_default());
    let mut d = Dag::new();
    let mut items = vec![d.atom(&msg)];
    if let Some(ds) = &dst {
        items.push(d.atom(ds));
    }
    d.list(&items);
    let got = call(op, &d, c.flags);
    let ctx = format!("{op} msg {} dst {:?} flags {}", c.msg, c.dst, flag_names(c.flags));
    let Got::Value(b) = &got else {
        return Verdict::fail(format!("{op} did not return an atom: {got:?}\n {ctx}"));
    };
    let eff = dst.clone().unwrap_or(default.to_vec());
    // independent hash-to-curve (RFC 9380) when available
    let indep = if c.g2 { crate::model::h2c::hash_to_g2(&msg, &eff).map(|p| rc::g2_encode(&p).to_vec()) } else { crate::model::h2c::hash_to_g1(&msg, &eff).map(|p| rc::g1_encode(&p).to_vec()) };
    let mut label = "validity only";
    if let Some(e) = indep {
        if *b != e {
            return Verdict::fail(format!("{op} returned {} but the independent RFC 9380 implementation gives {}\n {ctx}", hexs(b), hexs(&e)));
        }
        label = "value compared";
    }
    // validity: a finite point of the prime-order subgroup in canonical encoding
    let ok = if c.g2 { matches!(rc::g2_decode(b), Ok(Some(_))) } else { matches!(rc::g1_decode(b), Ok(Some(_))) };
    if !ok {
        return Verdict::fail(format!("{op} returned {} which is not a finite subgroup point in canonical encoding\n {ctx}", hexs(b)));
    }
    // the default DST is the documented string
    if dst.is_none() {
        let mut d2 = Dag::new();
        let m = d2.atom(&msg);
        let ds = d2.atom(default);
        d2.list(&[m, ds]);
        if call(op, &d2, c.flags) != got {
            return Verdict::fail(format!("{op} with the documented default DST given explicitly differs from the one-argument form\n {ctx}"));
        }
    }
    Verdict::pass(true).label(op).label(label).label(if dst.is_some() { "explicit dst" } else { "default dst" })
}

fn gen_map(t: &mut Tape) -> MapCase {
    let len = match t.below(8) { 0 => 0, 1 => 32, 2 => 48, 3 => 200 + t.below(100) as usize, _ => t.below(80) as usize };
    let dst = if t.flip() {
        let n = match t.below(6) { 0 => 0, 1 => 255, 2 => 256 + t.below(20) as usize, _ => 1 + t.below(60) as usize };
        Some(hex::encode(t.bytes(n)))
    } else {
        None
    };
    MapCase { g2: t.flip(), msg: hex::encode(t.bytes(len)), dst, flags: if t.flip() { NEW_COST } else { 0 } }
}

// -------------------------------------------------------------- part 6: secp --

#[derive(Serialize, Deserialize, Clone, Debug)]
pub struct SecpCase {
    pub r1: bool,
    /// secret key, nonce (decimal)
    pub d: String,
    pub k: String,
    pub digest: String,
    /// 0 compressed, 1 uncompressed, 2 tag 05 (x only), 3 hybrid 06/07, 4 identity 00, 5 wrong parity tag, 6 x >= p,
    /// 7 uncompressed off curve, 8 random 33 bytes, 9 other key, 10 wrong length
    pub pk_mode: u8,
    /// 0 valid (low s), 1 high s, 2 r = 0, 3 s = 0, 4 r >= n, 5 s >= n, 6 63 bytes, 7 65 bytes, 8 bit flip, 9 other digest signed
    pub sig_mode: u8,
    /// 32 normally
    pub msg_len: u8,
    pub x: u32,
}

pub fn test_secp(c: &SecpCase) -> Verdict {
    let cv = if c.r1 { rc::secp256r1() } else { rc::secp256k1() };
    let op = if c.r1 { "secp256r1_verify" } else { "secp256k1_verify" };
    let d = big(&c.d) % &cv.n;
    if d.is_zero() {
        return Verdict::discard();
    }
    let q = cv.e.mul(&cv.g, &d);
    let mut digest = [0u8; 32];
    let db = hex::decode(&c.digest).unwrap_or_default();
    for (i, b) in db.iter().take(32).enumerate() {
        digest[i] = *b;
    }
    let mut signed = digest;
    if c.sig_mode == 9 {
        signed[c.x as usize % 32] ^= 1;
    }
    let Some((r, mut s)) = cv.sign(&d, &big(&c.k), &signed) else { return Verdict::discard() };
    let half = &cv.n >> 1;
    // normalise to low s, then apply the requested variation
    if s > half {
        s = &cv.n - &s;
    }
    let sig: Vec<u8> = match c.sig_mode {
        1 => rc::sig_bytes(&r, &(&cv.n - &s)),
        2 => rc::sig_bytes(&BigUint::zero(), &s),
        3 => rc::sig_bytes(&r, &BigUint::zero()),
        4 => {
            // r + n when it fits in 256 bits, else n itself
            let v = &r + &cv.n;
            rc::sig_bytes(&if v.bits() <= 256 { v } else { cv.n.clone() }, &s)
        }
        5 => {
            let v = &s + &cv.n;
            rc::sig_bytes(&r, &if v.bits() <= 256 { v } else { cv.n.clone() })
        }
        6 => rc::sig_bytes(&r, &s)[..63].to_vec(),
        7 => {
            let mut b = rc::sig_bytes(&r, &s);
            b.push(0);
            b
        }
        8 => {
            let mut b = rc::sig_bytes(&r, &s);
            let bit = c.x as usize % 512;
            b[bit / 8] ^= 1 << (bit % 8);
            b
        }
        _ => rc::sig_bytes(&r, &s),
    };
    let other = cv.e.mul(&cv.g, &(&d + 1u32));
    let pk: Vec<u8> = match c.pk_mode {
        1 => cv.encode_pubkey(&q, false),
        2 => {
            let mut b = cv.encode_pubkey(&q, true);
            b[0] = 5;
            b
        }
        3 => {
            let mut b = cv.encode_pubkey(&q, false);
            b[0] = if q.as_ref().unwrap().1.v.bit(0) { 7 } else { 6 };
            b
        }
        4 => vec![0],
        5 => {
            let mut b = cv.encode_pubkey(&q, true);
            b[0] ^= 1;
            b
        }
        6 => {
            // x + p does not fit in 32 bytes for these primes unless x is tiny: use p + small
            let mut b = vec![2u8];
            let v = cv.p + BigUint::from(c.x % 1000);
            b.extend_from_slice(&v.to_bytes_be());
            b
        }
        7 => {
            let mut b = cv.encode_pubkey(&q, false);
            b[64] ^= 1;
            b
        }
        8 => {
            let mut b = vec![2 + (c.x % 2) as u8];
            let seed = sha256(&[&c.x.to_be_bytes()]);
            b.extend_from_slice(&seed);
            b
        }
        9 => cv.encode_pubkey(&other, c.x % 2 == 0),
        10 => {
            let mut b = cv.encode_pubkey(&q, c.x % 2 == 0);
            if c.x % 4 < 2 { b.pop(); } else { b.push(0); }
            b
        }
        _ => cv.encode_pubkey(&q, true),
    };
    let msg: Vec<u8> = if c.msg_len == 32 { digest.to_vec() } else { (0..c.msg_len).map(|i| digest[i as usize % 32]).collect() };
    // expected decision from the independent implementation
    let exp: Result<bool, &'static str> = (|| {
        let key = cv.decode_pubkey(&pk).ok_or("public key is not a valid SEC1 encoding of a curve point")?;
        if msg.len() != 32 {
            return Err("digest is not 32 bytes");
        }
        let (r2, s2) = cv.parse_sig(&sig).ok_or("signature is not 64 bytes of r, s in 1..n-1")?;
        let mut dg = [0u8; 32];
        dg.copy_from_slice(&msg);
        Ok(cv.verify(&key, &dg, &r2, &s2))
    })();
    let mut dd = Dag::new();
    let a0 = dd.atom_r(&pk, match c.x % 3 { 0 => Repr::Nat, 1 => Repr::Heap, _ => Repr::View });
    let a1 = dd.atom(&msg);
    let a2 = dd.atom_r(&sig, match (c.x / 3) % 3 { 0 => Repr::Nat, 1 => Repr::Heap, _ => Repr::View });
    dd.list(&[a0, a1, a2]);
    let got = call(op, &dd, 0);
    let ctx = format!("{op} pubkey {} digest {} sig {} (pk_mode {} sig_mode {})", hexs(&pk), hexs(&msg), hexs(&sig), c.pk_mode, c.sig_mode);
    let want = match exp {
        Ok(true) => Exp::Value(vec![]),
        Ok(false) => Exp::Reject("ECDSA verification fails"),
        Err(e) => Exp::Reject(e),
    };
    if let Some(v) = compare(op, &got, &want, &ctx) {
        // known finding F8: the SEC1-nonstandard "compact" tag 0x05 is accepted
        if pk.len() == 33 && pk[0] == 5 && matches!(got, Got::Value(_)) {
            return Verdict::fail_sig(v.fail.map(|f| f.msg).unwrap_or_default(), "secp-pubkey-tag-05-accepted");
        }
        return v;
    }
    Verdict::pass(true)
        .label(op)
        .label(match exp {
            Ok(true) => "valid".to_string(),
            Ok(false) => "verification fails".to_string(),
            Err(e) => format!("reject:{}", &e[..e.len().min(30)]),
        })
        .label(format!("pk_mode:{}", c.pk_mode))
        .label(format!("sig_mode:{}", c.sig_mode))
}

fn gen_secp(t: &mut Tape) -> SecpCase {
    let r1 = t.flip();
    let d = BigUint::from_bytes_be(&t.bytes(32)) + 1u32;
    let k = BigUint::from_bytes_be(&t.bytes(32)) + 1u32;
    let pk_mode = if t.chance(3, 5) { t.below(2) as u8 } else { t.below(11) as u8 };
    let sig_mode = if t.chance(3, 5) { 0 } else { t.below(10) as u8 };
    let msg_len = if t.chance(1, 12) { *t.pick(&[0u8, 31, 33, 64]) } else { 32 };
    let digest = match t.below(8) {
        0 => vec![0u8; 32],
        1 => vec![0xffu8; 32],
        _ => t.bytes(32),
    };
    SecpCase { r1, d: d.to_string(), k: k.to_string(), digest: hex::encode(digest), pk_mode, sig_mode, msg_len, x: t.word() }
}

// ---------------------------------------------------------- calibration --

/// the independent implementations must reproduce every pinned vector of the repository (value or FAIL)
pub fn calibrate() -> Result<usize, String> {
    rc::self_test()?;
    crate::model::h2c::self_test()?;
    let mut n = 0;
    let files = [
        "test-bls-ops", "test-blspy-g1", "test-blspy-g2", "test-blspy-pairing", "test-blspy-verify", "test-blspy-hash", "test-bls-zk", "test-secp-verify", "test-secp256k1",
        "test-secp256r1", "test-sha256", "test-keccak256", "test-keccak256-generated", "test-more-ops",
    ];
    for f in files {
        for t in optests::parse_file(f) {
            let atoms = optests::arg_atoms(&t.args);
            let proper = atoms.len() == t.args.pair_count(); // every argument is an atom
            if !proper {
                continue;
            }
            let args: Vec<Option<Vec<u8>>> = atoms.iter().map(|a| Some(a.clone())).collect();
            let exp = match t.op.as_str() {
                "sha256" | "keccak256" | "coinid" => hash_expect(&t.op, &args),
                "g1_add" | "point_add" => point_expect("point_add", &args),
                "g1_subtract" | "g1_multiply" | "g2_add" | "g2_subtract" | "g2_multiply" | "pubkey_for_exp" => point_expect(&t.op, &args),
                "g1_negate_strict" => point_expect("g1_negate", &args),
                "g2_negate_strict" => point_expect("g2_negate", &args),
                // relaxed negate: only the valid-point vectors say something about the group operation
                "g1_negate" | "g2_negate" => {
                    let e = point_expect(&t.op, &args);
                    if matches!(e, Exp::Reject(_)) {
                        continue;
                    }
                    e
                }
                "secp256k1_verify" | "secp256r1_verify" => {
                    let cv = if t.op.starts_with("secp256r1") { rc::secp256r1() } else { rc::secp256k1() };
                    if args.len() != 3 {
                        Exp::Reject("argument count")
                    } else {
                        let (pk, msg, sig) = (&atoms[0], &atoms[1], &atoms[2]);
                        let ok = (|| {
                            let key = cv.decode_pubkey(pk)?;
                            if msg.len() != 32 {
                                return None;
                            }
                            let (r, s) = cv.parse_sig(sig)?;
                            let mut dg = [0u8; 32];
                            dg.copy_from_slice(msg);
                            if cv.verify(&key, &dg, &r, &s) { Some(()) } else { None }
                        })();
                        if ok.is_some() { Exp::Value(vec![]) } else { Exp::Reject("secp") }
                    }
                }
                "g1_map" | "g2_map" => {
                    // value vectors calibrate the independent hash-to-curve
                    let Some((ev, _)) = &t.expect else { continue };
                    if args.is_empty() || args.len() > 2 {
                        continue;
                    }
                    let g2 = t.op == "g2_map";
                    let default: &[u8] = if g2 { b"BLS_SIG_BLS12381G2_XMD:SHA-256_SSWU_RO_AUG_" } else { b"BLS_SIG_BLS12381G1_XMD:SHA-256_SSWU_RO_AUG_" };
                    let dst = atoms.get(1).cloned().unwrap_or(default.to_vec());
                    let got = if g2 { crate::model::h2c::hash_to_g2(&atoms[0], &dst).map(|p| rc::g2_encode(&p).to_vec()) } else { crate::model::h2c::hash_to_g1(&atoms[0], &dst).map(|p| rc::g1_encode(&p).to_vec()) };
                    let Some(got) = got else { continue };
                    let want = optests::arg_atoms(&{
                        let mut d = Dag::new();
                        let r = d.append(ev);
                        d.list(&[r]);
                        d
                    });
                    if want.first() != Some(&got) {
                        return Err(format!("independent hash-to-curve disagrees with pinned vector {f}: `{}` (own {})", t.line.chars().take(200).collect::<String>(), hexs(&got)));
                    }
                    n += 1;
                    continue;
                }
                _ => continue,
            };
            match (&exp, &t.expect) {
                (Exp::Reject(_), None) => n += 1,
                (Exp::Value(v), Some((ev, _))) => {
                    let want = match &ev.n[ev.root() as usize] {
                        crate::dag::N::A(b, _) => b.clone(),
                        _ => return Err(format!("vector with a pair result: {}", t.line)),
                    };
                    if *v != want {
                        return Err(format!("independent implementation disagrees with pinned vector {f}: `{}` (own value {})", t.line.chars().take(300).collect::<String>(), hexs(v)));
                    }
                    n += 1;
                }
                (e, w) => {
                    return Err(format!("independent implementation disagrees with pinned vector {f}: `{}` (own {:?}, vector {})", t.line.chars().take(300).collect::<String>(), e, if w.is_some() { "succeeds" } else { "FAIL" }));
                }
            }
        }
    }
    if n < 300 { Err(format!("only {n} usable pinned vectors")) } else { Ok(n) }
}

pub fn run(r: &mut Runner) {
    r.rule = "hashes: sha256/keccak256 on 0..5 atoms (lengths around the 55/56/64 and 135/136 padding boundaries, up to 4 KB, every representation, pair arguments) and coinid with \
        amounts at every canonicity/size boundary, against own SHA-256/Keccak-256. groups: point_add, g1/g2 add, subtract, multiply, negate, pubkey_for_exp on k*G for k in {0,1,r-1,r,r+d, 256-bit, 560-bit}, \
        negative and padded scalars, and invalid operands (off-subgroup curve points, x >= p, wrong flag bits, stray bits on infinity, wrong lengths, bit flips, pairs, the other group's encoding), strict and \
        RELAXED_BLS, against own curve arithmetic and ZCash decoding (subgroup check = multiplication by r). pairing: 0..3 (a_i*G1, b_i*G2) pairs, balanced so that sum a_i*b_i = 0 mod r in 60% of cases, plus \
        damaged variants: expected decision from the discrete logarithms, no pairing computed. verify: 0..3 signers with known keys, signature = sum sk_i*H(pk_i||m_i) in own G2 arithmetic, variations \
        (extra term, wrong message, identity, missing signer, negated, damaged encoding, overridden / invalid / infinity public key). maps: g1_map/g2_map outputs are canonical finite subgroup points, the default \
        DST equals the documented string (value compared when the independent RFC 9380 implementation is available). secp: keys, nonces and digests generated; own ECDSA signing; 11 public-key encodings x 10 \
        signature variations x digest lengths against own SEC1 decoding and ECDSA verification (k1 low-S). Non-trivial = the operator reached its cryptographic core or rejected for a stated mathematical / \
        encoding reason; distinct by case."
        .into();
    r.assumptions = vec![
        "bls_verify with no (pk, msg) pairs accepts exactly the identity signature (empty product; pinned blspy vector); an identity public key is rejected (KeyValidate of the BLS signature standard)".into(),
        "RELAXED_BLS negate of invalid encodings is not compared (no standard defines it)".into(),
        "SEC1 v2 public-key encodings only: tags 02/03/04; the hybrid forms 06/07 of X9.62 and the identity are rejected by both sides".into(),
    ];
    if !r.is_replay() {
        match calibrate() {
            Ok(n) => r.extra.insert("calibration".into(), serde_json::json!(format!("independent implementations reproduce {n} pinned vectors (values and FAILs) and pass their self test"))),
            Err(e) => {
                r.inconclusive.push(format!("calibration of the independent implementations failed: {e}"));
                return;
            }
        };
    }
    let n = r.n(60_000, 2_000_000);
    r.run_part("hashes", n, 60, gen_hash, test_hash);
    let n = r.n(2_500, 60_000);
    r.run_part("groups", n, 60, gen_point_case, test_point);
    let n = r.n(700, 20_000);
    r.run_part("pairing", n, 60, gen_pairing, test_pairing);
    let n = r.n(500, 15_000);
    r.run_part("verify", n, 80, gen_verify, test_verify);
    let n = r.n(600, 15_000);
    r.run_part("maps", n, 30, gen_map, test_map);
    let n = r.n(1_500, 40_000);
    r.run_part("secp", n, 60, gen_secp, test_secp);
    r.require_label("identity", 100);
    r.require_label("not identity", 50);
    r.require_label("valid", 100);
    r.require_label("reject:not in the subgroup", 20);
}
