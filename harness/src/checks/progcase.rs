//! Shared case type and helpers for the program-level checks.

use crate::dag::{Dag, Interner, build};
use crate::engine::guard;
use crate::r#gen::programs::{GenProg, ProgCfg, gen_flags, gen_program};
use crate::tape::Tape;
use crate::util::{Out, flags, to_out};
use clvmr::allocator::{Allocator, NodePtr};
use clvmr::chia_dialect::{ChiaDialect, ClvmFlags};
use clvmr::cost::Cost;
use clvmr::dialect::{Dialect, OperatorSet};
use clvmr::reduction::Response;
use clvmr::run_program::run_program;
use serde::{Deserialize, Serialize};
use std::cell::Cell;

#[derive(Serialize, Deserialize, Clone, Debug)]
pub struct ProgCase {
    pub p: GenProg,
    pub flags: u32,
    /// budget selectors (interpreted by each check)
    pub budgets: Vec<u64>,
}

pub const BIG_BUDGET: u64 = 400_000_000;

pub fn gen_prog_case(t: &mut Tape, cfg: &ProgCfg) -> ProgCase {
    let fl = gen_flags(t);
    let mut cfg = *cfg;
    cfg.prerun_flags = fl;
    let p = gen_program(t, &cfg);
    let nb = 1 + t.below(4);
    let budgets = (0..nb).map(|_| t.u64()).collect();
    ProgCase { p, flags: fl, budgets }
}

/// a budget may be "unlimited" (0) only for programs that cannot loop
pub fn safe_unlimited(p: &GenProg) -> bool {
    !p.info.raw && !p.info.mutated && !p.info.recursive
}

/// Dialect wrapper recording which guard kinds were entered
pub struct Probe {
    pub inner: ChiaDialect,
    pub exempt_guard: Cell<bool>,
    /// the cost-exempt ("grandfathered") operator set was selected although NEW_COST_MODEL is not set
    pub bad_exempt: Cell<bool>,
    pub known_guard: Cell<u32>,
    pub ops: Cell<u32>,
}

impl Probe {
    pub fn new(bits: u32) -> Self {
        Probe { inner: ChiaDialect::new(flags(bits)), exempt_guard: Cell::new(false), bad_exempt: Cell::new(false), known_guard: Cell::new(0), ops: Cell::new(0) }
    }
}

impl Dialect for Probe {
    fn quote_kw(&self) -> u32 {
        self.inner.quote_kw()
    }
    fn apply_kw(&self) -> u32 {
        self.inner.apply_kw()
    }
    fn softfork_kw(&self) -> u32 {
        self.inner.softfork_kw()
    }
    fn softfork_extension(&self, ext: u32) -> OperatorSet {
        let r = self.inner.softfork_extension(ext);
        if r == OperatorSet::PreHardFork {
            // guards are exempt from cost agreement only under the new cost model (chia_dialect.rs, softfork_extension)
            if self.inner.flags().contains(ClvmFlags::NEW_COST_MODEL) {
                self.exempt_guard.set(true);
            } else {
                self.bad_exempt.set(true);
            }
        }
        if r != OperatorSet::Default {
            self.known_guard.set(self.known_guard.get() + 1);
        }
        r
    }
    fn flags(&self) -> ClvmFlags {
        self.inner.flags()
    }
    fn gc_candidate(&self, a: &Allocator, op: NodePtr) -> bool {
        self.inner.gc_candidate(a, op)
    }
    fn op(&self, a: &mut Allocator, op: NodePtr, args: NodePtr, max_cost: Cost, ext: OperatorSet) -> Response {
        self.ops.set(self.ops.get() + 1);
        self.inner.op(a, op, args, max_cost, ext)
    }
    fn allow_unknown_ops(&self) -> bool {
        self.inner.allow_unknown_ops()
    }
}

pub struct RunRes {
    pub out: Out,
    pub counts: (usize, usize, usize),
    pub exempt: bool,
    pub bad_exempt: bool,
    pub known_guards: u32,
    pub ops: u32,
}

/// build program+env in a fresh allocator (optionally heap-limited) and run it
pub fn run_fresh(i: &mut Interner, prog: &Dag, env: &Dag, bits: u32, budget: u64, heap_limit: Option<usize>) -> Option<RunRes> {
    let mut a = match heap_limit {
        Some(l) => Allocator::new_limited(l),
        None => Allocator::new(),
    };
    let p = build(&mut a, prog).ok()?;
    let e = build(&mut a, env).ok()?;
    let d = Probe::new(bits);
    let r = guard(|| run_program(&mut a, &d, p, e, budget));
    let out = to_out(&a, i, r);
    Some(RunRes { out, counts: crate::util::counts(&a), exempt: d.exempt_guard.get(), bad_exempt: d.bad_exempt.get(), known_guards: d.known_guard.get(), ops: d.ops.get() })
}

pub fn show_case(c: &ProgCase) -> String {
    format!(
        "program {} env {} flags {} ({:#x})",
        crate::dag::dag_hex(&c.p.prog, 600),
        crate::dag::dag_hex(&c.p.env, 300),
        crate::util::flag_names(c.flags),
        c.flags
    )
}

/// A dialect identical to ChiaDialect(F) except that it knows no softfork
/// extension and treats the two 4-byte secp opcodes as unknown operators.
pub struct Hiding {
    pub inner: ChiaDialect,
}

impl Hiding {
    pub fn new(bits: u32) -> Self {
        Hiding { inner: ChiaDialect::new(flags(bits)) }
    }
}

impl Dialect for Hiding {
    fn quote_kw(&self) -> u32 {
        self.inner.quote_kw()
    }
    fn apply_kw(&self) -> u32 {
        self.inner.apply_kw()
    }
    fn softfork_kw(&self) -> u32 {
        self.inner.softfork_kw()
    }
    fn softfork_extension(&self, _ext: u32) -> OperatorSet {
        OperatorSet::Default
    }
    fn flags(&self) -> ClvmFlags {
        self.inner.flags()
    }
    fn gc_candidate(&self, a: &Allocator, op: NodePtr) -> bool {
        self.inner.gc_candidate(a, op)
    }
    fn op(&self, a: &mut Allocator, op: NodePtr, args: NodePtr, max_cost: Cost, ext: OperatorSet) -> Response {
        // a node that does not know the secp operators sees every multi-byte opcode as an unknown operator
        // (ChiaDialect assigns no other multi-byte opcode): the published unknown-operator rule applies
        if a.atom_len(op) > 1 {
            if self.inner.flags().contains(ClvmFlags::NO_UNKNOWN_OPS) {
                return Err(clvmr::error::EvalErr::Unimplemented(op));
            }
            return clvmr::more_ops::op_unknown(a, op, args, max_cost, self.inner.flags());
        }
        self.inner.op(a, op, args, max_cost, ext)
    }
    fn allow_unknown_ops(&self) -> bool {
        self.inner.allow_unknown_ops()
    }
}

/// run with the hiding dialect in a fresh allocator
pub fn run_hiding(i: &mut Interner, prog: &Dag, env: &Dag, bits: u32, budget: u64) -> Option<RunRes> {
    let mut a = Allocator::new();
    let p = build(&mut a, prog).ok()?;
    let e = build(&mut a, env).ok()?;
    let d = Hiding::new(bits);
    let r = guard(|| run_program(&mut a, &d, p, e, budget));
    let out = to_out(&a, i, r);
    Some(RunRes { out, counts: crate::util::counts(&a), exempt: false, bad_exempt: false, known_guards: 0, ops: 0 })
}
