//! C16 — classic decoders are total and agree with each other.

use crate::alloc_count::measure;
use crate::checks::c15::BytesCase;
use crate::dag::{Dag, Interner};
use crate::engine::{Runner, Tier, Verdict, guard};
use crate::r#gen::bytes::gen_classic_bytes;
use crate::model::refhash::tree_hash_all;
use crate::model::refserde::{decode_classic, encode_classic};
use crate::tape::Tape;
use clvmr::allocator::Allocator;
use clvmr::serde::{
    ParsedTriple, is_canonical_serialization, node_from_stream, parse_triples, tree_hash_from_stream,
};
use std::io::Cursor;

/// rebuild a Dag from the triples (pre-order array: left child = index+1)
fn triples_to_dag(tr: &[ParsedTriple], blob: &[u8]) -> Result<Dag, String> {
    // process in reverse index order so children exist before parents
    let mut d = Dag::new();
    let mut map = vec![u32::MAX; tr.len()];
    for i in (0..tr.len()).rev() {
        match &tr[i] {
            ParsedTriple::Atom { start, end, atom_offset } => {
                let s = *start as usize + *atom_offset as usize;
                let e = *end as usize;
                if e > blob.len() || s > e {
                    return Err(format!("triple {i}: atom range {s}..{e} outside the input"));
                }
                map[i] = d.atom(&blob[s..e]);
            }
            ParsedTriple::Pair { right_index, .. } => {
                let l = i + 1;
                let r = *right_index as usize;
                if l >= tr.len() || r >= tr.len() || map[l] == u32::MAX || map[r] == u32::MAX {
                    return Err(format!("triple {i}: bad child indices {l}/{r}"));
                }
                map[i] = d.pair(map[l], map[r]);
            }
        }
    }
    if tr.is_empty() {
        return Err("no triples".into());
    }
    // root is index 0, which was added last
    Ok(d)
}

pub fn test_bytes(c: &BytesCase) -> Verdict {
    let b = &c.b;
    let reference = decode_classic(b);
    // memory bound: c*len + K
    let bound = 256 * b.len() + (4 << 20);

    let (nfb, peak1) = measure(|| {
        guard(|| {
            let mut a = Allocator::new();
            let mut cur = Cursor::new(b.as_slice());
            node_from_stream(&mut a, &mut cur).map(|n| {
                let mut i = Interner::new();
                let id = i.node(&a, n);
                (i.to_dag(id), cur.position() as usize)
            })
        })
    });
    let (pt, peak2) = measure(|| {
        guard(|| {
            let mut cur = Cursor::new(b.as_slice());
            parse_triples(&mut cur, true).map(|(tr, hashes)| (tr, hashes, cur.position() as usize))
        })
    });
    let (ths, peak3) = measure(|| {
        guard(|| {
            let mut cur = Cursor::new(b.as_slice());
            tree_hash_from_stream(&mut cur).map(|h| (h, cur.position() as usize))
        })
    });
    for (name, p) in [("node_from_bytes", peak1), ("parse_triples", peak2), ("tree_hash_from_stream", peak3)] {
        if p > bound {
            return Verdict::fail(format!(
                "{name} allocated {p} bytes for a {}-byte input (bound {bound}): input {}",
                b.len(),
                crate::util::hexs(b)
            ));
        }
    }
    let nfb = match nfb {
        Ok(x) => x,
        Err(p) => return Verdict::fail(format!("node_from_bytes panicked on {}: {p}", crate::util::hexs(b))),
    };
    let pt = match pt {
        Ok(x) => x,
        Err(p) => return Verdict::fail(format!("parse_triples panicked on {}: {p}", crate::util::hexs(b))),
    };
    let ths = match ths {
        Ok(x) => x,
        Err(p) => return Verdict::fail(format!("tree_hash_from_stream panicked on {}: {p}", crate::util::hexs(b))),
    };
    // parse_triples without hash calculation takes a different code path (atom payloads are skipped, not read):
    // it must accept the same inputs, consume the same bytes and return the same triples
    let pt_nohash = match guard(|| {
        let mut cur = Cursor::new(b.as_slice());
        parse_triples(&mut cur, false).map(|(tr, hashes)| (tr, hashes.is_some(), cur.position() as usize))
    }) {
        Ok(x) => x,
        Err(p) => return Verdict::fail(format!("parse_triples(no hashes) panicked on {}: {p}", crate::util::hexs(b))),
    };
    match (&pt, &pt_nohash) {
        (Ok((t1, _, c1)), Ok((t2, has, c2))) => {
            if *has {
                return Verdict::fail("parse_triples(calculate_tree_hashes = false) returned hashes".to_string());
            }
            if format!("{t1:?}") != format!("{t2:?}") || c1 != c2 {
                return Verdict::fail(format!("parse_triples with and without hash calculation return different triples / positions on {}", crate::util::hexs(b)));
            }
        }
        (Err(_), Err(_)) => {}
        (a, n) => {
            return Verdict::fail(format!(
                "parse_triples accepts {} only {} hash calculation (with: {}, without: {})",
                crate::util::hexs(b),
                if a.is_ok() { "with" } else { "without" },
                a.is_ok(),
                n.is_ok()
            ));
        }
    }
    let acc = [nfb.is_ok(), pt.is_ok(), ths.is_ok(), reference.is_ok()];
    if acc.iter().any(|x| *x != acc[0]) {
        return Verdict::fail(format!(
            "decoders disagree on acceptance of {}: node_from_bytes={} parse_triples={} tree_hash_from_stream={} reference={}",
            crate::util::hexs(b),
            acc[0],
            acc[1],
            acc[2],
            acc[3]
        ));
    }
    if !acc[0] {
        // rejected by all; non-trivial when at least one complete node preceded the failure
        let complete = b.len() > 1 && b[0] == 0xff && decode_classic(&b[1..]).is_ok();
        return Verdict::pass(complete).label("rejected");
    }
    let (tree, consumed) = nfb.unwrap();
    let (triples, hashes, consumed_pt) = pt.unwrap();
    let (hash, consumed_th) = ths.unwrap();
    let rf = reference.unwrap();
    if consumed != rf.consumed || consumed_pt != rf.consumed || consumed_th != rf.consumed {
        return Verdict::fail(format!(
            "consumed bytes differ on {}: node_from_bytes={consumed} parse_triples={consumed_pt} tree_hash={consumed_th} reference={}",
            crate::util::hexs(b),
            rf.consumed
        ));
    }
    let mut i = Interner::new();
    let want = i.dag(&rf.dag);
    if i.dag(&tree) != want {
        return Verdict::fail(format!("node_from_bytes tree differs from the reference decoder on {}", crate::util::hexs(b)));
    }
    match triples_to_dag(&triples, b) {
        Ok(td) => {
            if i.dag(&td) != want {
                return Verdict::fail(format!("parse_triples describes a different tree on {}", crate::util::hexs(b)));
            }
            // per-triple hashes
            let hashes = hashes.unwrap_or_default();
            if hashes.len() != triples.len() {
                return Verdict::fail("parse_triples: hash count != triple count".to_string());
            }
            let th = tree_hash_all(&td);
            // td nodes were created in reverse triple order
            let n = triples.len();
            for (k, h) in hashes.iter().enumerate() {
                if *h != th[n - 1 - k] {
                    return Verdict::fail(format!(
                        "parse_triples hash {k} differs from sha256 tree hash on {}",
                        crate::util::hexs(b)
                    ));
                }
            }
            // end offsets
            if let Some(t0) = triples.first() {
                let end = match t0 {
                    ParsedTriple::Atom { end, .. } | ParsedTriple::Pair { end, .. } => *end,
                };
                if end as usize != rf.consumed {
                    return Verdict::fail(format!("parse_triples root end {end} != consumed {}", rf.consumed));
                }
            }
        }
        Err(m) => return Verdict::fail(format!("parse_triples output malformed on {}: {m}", crate::util::hexs(b))),
    }
    let want_hash = *tree_hash_all(&rf.dag).last().unwrap();
    if hash != want_hash {
        return Verdict::fail(format!("tree_hash_from_stream differs from the recursive definition on {}", crate::util::hexs(b)));
    }
    // canonicity
    let canon = guard(|| is_canonical_serialization(b));
    let canon = match canon {
        Ok(c) => c,
        Err(p) => return Verdict::fail(format!("is_canonical_serialization panicked: {p}")),
    };
    let reser = encode_classic(&rf.dag, 64 << 20);
    let expect_canon = rf.consumed == b.len() && reser.as_deref() == Some(&b[..]);
    if canon != expect_canon {
        return Verdict::fail(format!(
            "is_canonical_serialization({}) = {canon}, but whole-input-and-reserializes-identically = {expect_canon}",
            crate::util::hexs(b)
        ));
    }
    Verdict::pass(rf.dag.n.len() >= 2).label(if canon { "accepted canonical" } else { "accepted non-canonical" })
}

fn nth_short(i: u64) -> Vec<u8> {
    // all strings of length 0,1,2,3 in order
    if i == 0 {
        vec![]
    } else if i < 1 + 256 {
        vec![(i - 1) as u8]
    } else if i < 1 + 256 + 65536 {
        let j = i - 257;
        vec![(j >> 8) as u8, j as u8]
    } else {
        let j = i - 257 - 65536;
        vec![(j >> 16) as u8, (j >> 8) as u8, j as u8]
    }
}

pub fn run(r: &mut Runner) {
    r.rule = "part short: every byte string up to the length bound (exhaustive). part gen: valid classic serializations, mutated ones, token streams, random bytes. \
        Non-trivial = accepted input describing >= 2 nodes, or rejected after at least one complete node; distinct by input bytes. \
        Oracle: independent classic decoder + independent SHA-256 tree hash; memory bound 256*len+4MiB per call measured by a counting allocator."
        .into();
    let total = if r.tier == Tier::Quick { 1 + 256 + 65536 } else { 1 + 256 + 65536 + (1u64 << 24) };
    r.run_enum("short", total, |i| BytesCase { b: nth_short(i) }, test_bytes);
    r.extra.insert(
        "exhaustive_subspace".into(),
        serde_json::json!(format!("all byte strings of length <= {}", if r.tier == Tier::Quick { 2 } else { 3 })),
    );
    let n = r.n(100_000, 3_000_000);
    r.run_part("gen", n, 200, |t: &mut Tape| BytesCase { b: gen_classic_bytes(t) }, test_bytes);
    // constructed: huge declared sizes in tiny inputs
    let hostile: Vec<Vec<u8>> = vec![
        vec![0xfb, 0xff, 0xff, 0xff, 0xff],
        vec![0xf8, 0xff, 0xff, 0xff, 0xff, 0x00],
        vec![0xfc, 0x03, 0xff, 0xff, 0xff, 0xff],
        vec![0xf7, 0xff, 0xff, 0xff],
        vec![0xff, 0xfb, 0xff, 0xff, 0xff, 0xff, 0x80],
        vec![0xff, 0x80, 0xf0, 0x10, 0x00, 0x00, 0x01],
        vec![0xfc, 0x04, 0, 0, 0, 0],
        vec![0xfd, 0xff, 0x32, 0x30, 0x32, 0x36, 0x00, 0x01, 0x00],
    ];
    r.run_enum("hostile", hostile.len() as u64, |i| BytesCase { b: hostile[i as usize].clone() }, test_bytes);
}
