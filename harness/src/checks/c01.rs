//! C01 — the interpreter agrees with the reference CLVM on the classic operator set.

use crate::checks::progcase::{BIG_BUDGET, ProgCase, gen_prog_case, run_fresh, safe_unlimited, show_case};
use crate::dag::{Dag, Interner, N};
use crate::engine::{Runner, Verdict, guard};
use crate::r#gen::programs::{OpSet, ProgCfg};
use crate::model::optests;
use crate::model::refvm::{self, RefErr};
use crate::tape::Tape;
use crate::util::Out;

/// opcodes that have a meaning in ChiaDialect(default flags) but not in the reference
fn outside_domain(d: &Dag) -> bool {
    d.n.iter().any(|n| match n {
        N::A(b, _) => (b.len() == 1 && (b[0] == 29 || b[0] == 30 || (48..=62).contains(&b[0]))) || b == &vec![0x13u8, 0xd6, 0x1f, 0x00] || b == &vec![0x1cu8, 0x3a, 0x8f, 0x00],
        _ => false,
    })
}

pub fn test_prog(c: &ProgCase) -> Verdict {
    if !c.p.prog.is_valid() || !c.p.env.is_valid() {
        return Verdict::discard();
    }
    if outside_domain(&c.p.prog) || outside_domain(&c.p.env) {
        return Verdict::discard();
    }
    let top = if safe_unlimited(&c.p) { 0 } else { BIG_BUDGET / 4 };
    let mut budgets = vec![top];
    let mut i = Interner::new();
    // reference at the top budget first; derive further budgets from its cost
    let rp = refvm::from_dag(&c.p.prog);
    let re = refvm::from_dag(&c.p.env);
    let base = guard(|| refvm::run_program(&rp, &re, top));
    let base = match base {
        Ok(b) => b,
        Err(p) => return Verdict::fail(format!("reference model panicked (harness bug): {p}\n {}", show_case(c))),
    };
    if matches!(&base, Err(RefErr::OutsideDomain)) {
        return Verdict::discard(); // an opcode outside the classic set was computed at run time
    }
    if let Ok(o) = &base {
        budgets.push(o.cost);
        budgets.push(o.cost.saturating_sub(1).max(1));
        for b in c.budgets.iter().take(2) {
            budgets.push(1 + (b >> 8) % (o.cost + 50));
        }
    }
    let mut nontrivial = false;
    let mut labels: Vec<String> = Vec::new();
    for budget in budgets {
        let reference = if budget == top { base.as_ref().map(|o| (o.cost, refvm::intern(&mut i, &o.value))).map_err(|e| e.clone()) } else {
            match guard(|| refvm::run_program(&rp, &re, budget)) {
                Ok(r) => r.map(|o| (o.cost, refvm::intern(&mut i, &o.value))),
                Err(p) => return Verdict::fail(format!("reference model panicked (harness bug): {p}")),
            }
        };
        if matches!(&reference, Err(RefErr::OutsideDomain)) {
            return Verdict::discard();
        }
        let Some(im) = run_fresh(&mut i, &c.p.prog, &c.p.env, 0, budget, None) else { return Verdict::discard() };
        match (&reference, &im.out) {
            (_, Out::Panic(m)) => return Verdict::fail(format!("run_program panicked: {m}\n {}", show_case(c))),
            (Ok((rc, rv)), Out::Ok { cost, val }) => {
                if rc != cost || rv != val {
                    return Verdict::fail(format!(
                        "budget {budget}: implementation gives cost {cost} value {}; the reference CLVM gives cost {rc} value {}\n {}",
                        i.to_hex(*val, 300),
                        i.to_hex(*rv, 300),
                        show_case(c)
                    ));
                }
            }
            (Ok((rc, rv)), Out::Err { kind, msg }) => {
                return Verdict::fail(format!(
                    "budget {budget}: implementation fails with {kind} ('{msg}'); the reference CLVM succeeds with cost {rc} value {}\n {}",
                    i.to_hex(*rv, 300),
                    show_case(c)
                ));
            }
            (Err(e), Out::Ok { cost, val }) => {
                let msg = format!(
                    "budget {budget}: implementation succeeds (cost {cost}, value {}); the reference CLVM fails: {e:?}\n {}",
                    i.to_hex(*val, 300),
                    show_case(c)
                );
                return match e {
                    RefErr::LoneAtom => Verdict::fail_sig(msg, "paren-operator-with-non-nil-atom-tail-accepted"),
                    RefErr::ImproperList => Verdict::fail_sig(msg, "improper-operand-list-via-paren-syntax-accepted"),
                    _ => Verdict::fail(msg),
                };
            }
            (Err(_), Out::Err { .. }) => {}
        }
        if budget == top {
            if let Ok(o) = &base {
                nontrivial = o.ops_executed >= 3;
                for (op, n) in &o.per_op {
                    if op.len() == 1 && *n > 0 {
                        labels.push(format!("op{}", op[0]));
                    } else if op.len() > 1 {
                        labels.push("multi-byte unknown op".into());
                    }
                }
                if o.guard_entered {
                    labels.push("guard entered".into());
                }
                labels.push("outcome:ok".into());
            } else {
                labels.push("outcome:fail".into());
            }
        }
    }
    if c.p.info.noncanonical_int {
        labels.push("non-canonical int".into());
    }
    if c.p.info.leading_zero_path {
        labels.push("leading-zero path".into());
    }
    labels.sort();
    labels.dedup();
    Verdict::pass(nontrivial).with_labels(labels)
}

/// every atom of the program and environment (operators, paths, quoted values) gets a generated internal representation
pub fn gen_repr_case(t: &mut Tape, cfg: &ProgCfg) -> ProgCase {
    let mut c = gen_prog_case(t, cfg);
    for d in [&mut c.p.prog, &mut c.p.env] {
        for n in d.n.iter_mut() {
            if let N::A(_, r) = n {
                *r = crate::r#gen::atoms::gen_repr(t);
            }
        }
    }
    c
}

/// path lookups: a bare path atom (or a path under a few f/r operators) evaluated in an environment with a deep
/// generated spine; the path follows the spine for a generated number of steps (also one step too far), is written
/// without / with redundant leading zero bytes and stored in every internal representation
pub fn gen_path_case(t: &mut Tape) -> ProgCase {
    use crate::dag::Repr;
    let depth = match t.below(6) {
        0 => t.below(8),
        1 => 6 + t.below(4),   // around 7/8 bits
        2 => 14 + t.below(4),  // around 15/16 bits
        3 => 22 + t.below(4),  // around 23/24 bits
        4 => 30 + t.below(4),  // around 31/32 bits
        _ => t.below(45),
    } as usize;
    let mut dirs: Vec<bool> = Vec::new(); // true = rest
    for _ in 0..depth {
        dirs.push(match t.below(4) { 0 => false, 1 | 2 => true, _ => t.flip() });
    }
    // all-ones paths (0xff, 0xffff...) need "rest" everywhere
    if t.chance(1, 3) {
        for d in dirs.iter_mut() {
            *d = true;
        }
    }
    let mut env = Dag::new();
    let mut cur = {
        let b = crate::r#gen::atoms::gen_atom(t, 20);
        env.atom(&b)
    };
    if t.chance(1, 3) {
        let x = env.atom(&[7]);
        cur = env.pair(cur, x);
    }
    for d in dirs.iter().rev() {
        let sib = {
            let b = crate::r#gen::atoms::gen_atom(t, 8);
            env.atom(&b)
        };
        cur = if *d { env.pair(sib, cur) } else { env.pair(cur, sib) };
    }
    let _ = cur;
    // number of steps taken: mostly the full depth, sometimes fewer or one more
    let steps = match t.below(6) {
        0 => t.below(depth as u32 + 1) as usize,
        1 => depth + 1 + t.below(2) as usize,
        _ => depth,
    };
    let mut v = num_bigint::BigUint::from(1u32) << steps;
    for k in 0..steps {
        let bit = if k < depth { dirs[k] } else { t.flip() };
        if bit {
            v |= num_bigint::BigUint::from(1u32) << k;
        }
    }
    let mut pb = v.to_bytes_be();
    // redundant leading zero bytes (also the single one the canonical integer form would need)
    for _ in 0..(match t.below(6) { 0 => 1, 1 => 2, 2 => 1 + t.below(4), _ => 0 }) {
        pb.insert(0, 0);
    }
    if t.chance(1, 25) {
        let n = 1 + t.below(5) as usize;
        pb = t.bytes(n);
    }
    let repr = match t.below(3) { 0 => Repr::Nat, 1 => Repr::Heap, _ => Repr::View };
    let mut prog = Dag::new();
    let mut node = prog.atom_r(&pb, repr);
    // optionally under f / r / (a (q . path) 1)
    for _ in 0..t.below(3) {
        let op = prog.atom(&[if t.flip() { 5 } else { 6 }]);
        let l = prog.list(&[node]);
        node = prog.pair(op, l);
    }
    if t.chance(1, 5) {
        let a = prog.atom(&[2]);
        let q = prog.atom(&[1]);
        let qp = prog.pair(q, node);
        let one = prog.atom(&[1]);
        let l = prog.list(&[qp, one]);
        prog.pair(a, l);
    }
    ProgCase { p: crate::r#gen::programs::GenProg { prog, env, info: Default::default() }, flags: 0, budgets: vec![t.u64(), t.u64()] }
}

/// calibration: the port must reproduce the repository's pinned vectors (ported from the reference package)
fn calibrate() -> Result<usize, String> {
    let mut n = 0;
    let classic: Vec<u8> = vec![3, 4, 5, 6, 7, 8, 9, 10, 11, 12, 13, 14, 16, 17, 18, 19, 20, 21, 22, 23, 24, 25, 26, 27, 32, 33, 34];
    for file in ["test-core-ops", "test-more-ops", "test-sha256", "test-unknown-ops"] {
        for t in optests::parse_file(file) {
            let Some(op) = optests::symbol(&t.op) else { continue };
            let is_unknown = t.op.starts_with("unknown");
            if !(is_unknown || (op.len() == 1 && classic.contains(&op[0]))) {
                continue;
            }
            // (q . args) evaluated through ((op) . args): apply the operator to the literal list
            let mut d = Dag::new();
            let o = d.atom(&op);
            let nil = d.nil();
            let wrapped = d.pair(o, nil);
            let a = d.append(&t.args);
            d.pair(wrapped, a);
            let p = refvm::from_dag(&d);
            let e = refvm::atom(&[]);
            let r = refvm::run_program(&p, &e, 0);
            match (&t.expect, r) {
                (Some((val, cost)), Ok(o)) => {
                    let mut i = Interner::new();
                    if o.cost != cost + 90 || refvm::intern(&mut i, &o.value) != i.dag(val) {
                        return Err(format!("port disagrees with pinned vector {file}: `{}` (port cost {} value {})", t.line, o.cost - 90, i.to_hex(refvm::intern(&mut Interner::new(), &o.value), 100)));
                    }
                    n += 1;
                }
                (None, Err(_)) => n += 1,
                (Some(_), Err(e)) => return Err(format!("port fails on pinned vector {file}: `{}` ({e:?})", t.line)),
                (None, Ok(_)) => {
                    // size limits of the implementation (not part of the reference) make some vectors FAIL
                    continue;
                }
            }
        }
    }
    // whole-program vectors from run_program.rs (flags empty, classic operators only)
    let src = std::fs::read_to_string("/repo/src/run_program.rs").map_err(|e| e.to_string())?;
    let mut progs = 0;
    for block in src.split("RunProgramTest {").skip(1) {
        let field = |name: &str| -> Option<String> {
            let k = block.find(&format!("{name}: "))?;
            let rest = &block[k + name.len() + 2..];
            let q1 = rest.find('"')?;
            // fields are simple string literals without escapes
            let q2 = rest[q1 + 1..].find('"')?;
            Some(rest[q1 + 1..q1 + 1 + q2].to_string())
        };
        let Some(end) = block.find("},") else { continue };
        let body = &block[..end];
        if !body.contains("flags: ClvmFlags::empty()") {
            continue;
        }
        let (Some(prg), Some(args)) = (field("prg"), field("args")) else { continue };
        if ["point_add", "pubkey_for_exp", "coinid", "g1_", "g2_", "bls_", "keccak", "sha256tree", "secp", "modpow", "%", "softfork"].iter().any(|w| prg.contains(w)) {
            continue;
        }
        let cost: u64 = body.split("cost: ").nth(1).and_then(|s| s.split(',').next()).and_then(|s| s.trim().replace('_', "").parse().ok()).unwrap_or(0);
        let result_none = body.contains("result: None");
        let (Some(pd), Some(ad)) = (optests::parse_text(&prg), optests::parse_text(&args)) else { continue };
        let r = refvm::run_program(&refvm::from_dag(&pd), &refvm::from_dag(&ad), 0);
        match (result_none, r) {
            (true, Err(_)) => progs += 1,
            (false, Ok(o)) => {
                if o.cost != cost {
                    return Err(format!("port disagrees with TEST_CASES program `{prg}`: port cost {} pinned {cost}", o.cost));
                }
                progs += 1;
            }
            (true, Ok(o)) => {
                // the pinned failure may be an implementation-only limit (cost is 0 in those entries)
                let _ = o;
            }
            (false, Err(e)) => return Err(format!("port fails on TEST_CASES program `{prg}`: {e:?}")),
        }
    }
    if n < 200 || progs < 40 {
        return Err(format!("too few calibration vectors: {n} operator lines, {progs} programs"));
    }
    Ok(n + progs)
}

pub fn run(r: &mut Runner) {
    r.rule = "programs/environments from the typed generator restricted to opcodes 1..36 minus 29/30 plus unknown opcodes (unassigned 1-byte values, 2..7-byte opcodes; the implementation-assigned 48..62 and the two 4-byte secp codes are excluded), full atom generator (non-canonical ints, leading-zero paths), mutation layer, default flags; budgets: unlimited (or 10^8), C, C-1 and two generated ones. Part programs-reprs: the same with every atom (operators, paths, quoted values) stored in a generated internal representation (inline / forced heap copy / view). Part paths: path atoms following generated spines of depth 0..45 (dense around 7/8, 15/16, 23/24, 31/32 bits, all-ones paths), with and without leading zero bytes, every representation, also under f/r/a. \
        Oracle: port of the reference Python clvm (adapters A1 div-floor-negative, A2 softfork-guard), calibrated on the classic lines of op-tests/*.txt and the classic TEST_CASES of run_program.rs. Compared: success <=> success, result tree and cost. \
        Non-trivial = the reference executed >= 3 operator applications; distinct by case."
        .into();
    r.assumptions = vec!["the reference package itself is not installed in the sandbox; the oracle is a port written from its published semantics and calibrated on vectors ported from it".into()];
    match guard(calibrate) {
        Ok(Ok(n)) => {
            r.extra.insert("calibration_vectors".into(), serde_json::json!(n));
        }
        Ok(Err(e)) => {
            r.inconclusive.push(format!("calibration failed: {e}"));
            return;
        }
        Err(p) => {
            r.inconclusive.push(format!("calibration panicked: {p}"));
            return;
        }
    }
    let cfg = ProgCfg { ops: OpSet::Classic, mutate_pct: 25, raw_pct: 6, reprs: false, crypto: false, max_atom: 80, ..Default::default() };
    let n = r.n(40_000, 2_000_000);
    r.run_part("programs", n, 600, |t: &mut Tape| gen_prog_case(t, &cfg), test_prog);
    let n = r.n(40_000, 1_000_000);
    r.run_part("programs-reprs", n, 700, |t: &mut Tape| gen_repr_case(t, &cfg), test_prog);
    let n = r.n(40_000, 1_000_000);
    r.run_part("paths", n, 120, gen_path_case, test_prog);
    for op in [3u8, 4, 5, 6, 7, 9, 10, 11, 12, 13, 14, 16, 17, 18, 19, 20, 21, 22, 23, 24, 25, 26, 27, 32, 33, 34] {
        r.require_label(&format!("op{op}"), 30);
    }
    r.require_label("multi-byte unknown op", 30);
    r.require_label("guard entered", 30);
}
