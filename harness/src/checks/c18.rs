//! C18 — back-reference decoders agree with each other and with the length probe.

use crate::checks::c15::BytesCase;
use crate::dag::{Interner, build};
use crate::engine::{Runner, Tier, Verdict, guard};
use crate::r#gen::bytes::{mutate, token_stream};
use crate::r#gen::trees::{TreeCfg, gen_tree};
use crate::model::refserde::{DecErr, decode_backrefs};
use crate::tape::Tape;
use crate::util::hexs;
use clvmr::allocator::Allocator;
use clvmr::serde::{
    node_from_bytes_backrefs, node_from_bytes_backrefs_old, node_to_bytes_backrefs_limit,
    serialized_length_from_bytes,
};

pub fn test_bytes(c: &BytesCase) -> Verdict {
    let b = &c.b;
    let run = |old: bool, buf: &[u8]| {
        guard(|| {
            let mut a = Allocator::new();
            let r = if old { node_from_bytes_backrefs_old(&mut a, buf) } else { node_from_bytes_backrefs(&mut a, buf) };
            let pc = a.pair_count();
            match r {
                Ok(n) => {
                    let mut i = Interner::new();
                    let id = i.node(&a, n);
                    Ok((i.to_dag(id), pc))
                }
                Err(e) => Err((e.to_string(), pc)),
            }
        })
    };
    let new = match run(false, b) {
        Ok(x) => x,
        Err(p) => return Verdict::fail(format!("node_from_bytes_backrefs panicked on {}: {p}", hexs(b))),
    };
    let old = match run(true, b) {
        Ok(x) => x,
        Err(p) => return Verdict::fail(format!("node_from_bytes_backrefs_old panicked on {}: {p}", hexs(b))),
    };
    let probe = match guard(|| serialized_length_from_bytes(b)) {
        Ok(x) => x,
        Err(p) => return Verdict::fail(format!("serialized_length_from_bytes panicked on {}: {p}", hexs(b))),
    };
    let reference = decode_backrefs(b);
    let acc = [new.is_ok(), old.is_ok(), probe.is_ok(), reference.is_ok()];
    if acc.iter().any(|x| *x != acc[0]) {
        return Verdict::fail(format!(
            "acceptance differs on {}: current={} legacy={} length-probe={} reference-decoder={} ({:?})",
            hexs(b),
            acc[0],
            acc[1],
            acc[2],
            acc[3],
            reference.as_ref().err()
        ));
    }
    match (&new, &old) {
        (Err((_, pn)), Err((_, po))) => {
            if pn != po {
                return Verdict::fail(format!(
                    "decoders reject {} but leave different pair counts: current={pn} legacy={po}",
                    hexs(b)
                ));
            }
            let path_reason = matches!(reference, Err(DecErr::BadPath));
            return Verdict::pass(path_reason).label(if path_reason { "rejected: path" } else { "rejected: other" });
        }
        _ => {}
    }
    let (tn, pn) = new.unwrap();
    let (to, po) = old.unwrap();
    let rf = reference.unwrap();
    let mut i = Interner::new();
    let want = i.dag(&rf.dag);
    if i.dag(&tn) != want || i.dag(&to) != want {
        return Verdict::fail(format!(
            "trees differ on {}: current={} legacy={} reference={}",
            hexs(b),
            crate::dag::dag_hex(&tn, 200),
            crate::dag::dag_hex(&to, 200),
            crate::dag::dag_hex(&rf.dag, 200)
        ));
    }
    if pn != po {
        return Verdict::fail(format!("pair counts differ on {}: current={pn} legacy={po}", hexs(b)));
    }
    let l = probe.unwrap() as usize;
    if l != rf.consumed {
        return Verdict::fail(format!(
            "serialized_length_from_bytes({}) = {l}, decoder consumes {}",
            hexs(b),
            rf.consumed
        ));
    }
    // decode(b[..L]) equal, decode(b[..L-1]) fails
    match run(false, &b[..l]) {
        Ok(Ok((t, _))) if i.dag(&t) == want => {}
        o => return Verdict::fail(format!("decoding the first {l} bytes of {} gave {:?}", hexs(b), o.map(|x| x.map(|y| y.1)))),
    }
    if l > 0
        && let Ok(Ok(_)) = run(false, &b[..l - 1])
    {
        return Verdict::fail(format!("decoding only {} bytes of {} succeeds although the probe reports {l}", l - 1, hexs(b)));
    }
    let has_ref = {
        // token walk
        let mut pos = 0usize;
        let mut refs = 0;
        while pos < l {
            let x = b[pos];
            if x == 0xff {
                pos += 1;
            } else if x == 0xfe {
                refs += 1;
                pos += 1;
            } else if x <= 0x80 {
                pos += 1;
            } else {
                let ones = x.leading_ones() as usize;
                let mut size = (x & (0xffu8 >> ones)) as usize;
                for k in 1..ones {
                    size = (size << 8) | b[pos + k] as usize;
                }
                pos += ones + size;
            }
        }
        refs > 0
    };
    Verdict::pass(has_ref).label(if has_ref { "accepted with backref" } else { "accepted plain" })
}

pub fn gen_bytes(t: &mut Tape) -> BytesCase {
    let cfg = TreeCfg { max_nodes: 30, max_atom: 40, reprs: false, dup_atoms: 60, deep: 0 };
    let b = match t.weighted(&[2, 5, 5, 2, 1]) {
        0 | 1 => {
            // implementation output (valid), possibly tampered
            let tamper = t.chance(2, 3);
            let d = gen_tree(t, &cfg);
            let mut a = Allocator::new();
            let mut b = match build(&mut a, &d) {
                Ok(n) => node_to_bytes_backrefs_limit(&a, n, 1 << 24).unwrap_or_else(|_| vec![0x80]),
                Err(_) => vec![0x80],
            };
            if tamper {
                // path tampering: find a 0xfe and rewrite the byte after it
                if t.flip()
                    && let Some(p) = b.iter().position(|x| *x == 0xfe)
                    && p + 1 < b.len()
                {
                    let k = p + 1;
                    b[k] = match t.below(5) {
                        0 => b[k].wrapping_add(1),
                        1 => b[k] ^ (1 << t.below(7)),
                        2 => 0,
                        3 => 0x7f,
                        _ => 0x01,
                    };
                } else {
                    mutate(t, &mut b);
                }
            }
            b
        }
        2 => {
            let mut out = Vec::new();
            let mut budget = t.below(12);
            token_stream(t, true, &mut budget, &mut out);
            out
        }
        3 => {
            let mut out = Vec::new();
            let mut budget = t.below(12);
            token_stream(t, true, &mut budget, &mut out);
            mutate(t, &mut out);
            out
        }
        _ => {
            let n = t.below(16) as usize;
            t.bytes(n)
        }
    };
    BytesCase { b }
}

fn nth_short(i: u64) -> Vec<u8> {
    if i == 0 {
        vec![]
    } else if i < 1 + 256 {
        vec![(i - 1) as u8]
    } else if i < 1 + 256 + 65536 {
        let j = i - 257;
        vec![(j >> 8) as u8, j as u8]
    } else {
        let j = i - 257 - 65536;
        vec![(j >> 16) as u8, (j >> 8) as u8, j as u8]
    }
}

pub fn run(r: &mut Runner) {
    r.rule = "part short: all byte strings up to the length bound; part gen: serializer outputs with tampered paths, token streams with back-references (into the stack, into atoms, past the end, zero path, leading zeros, over-long prefixes), mutated and random bytes. \
        Non-trivial = accepted input containing a back-reference, or rejection caused by a path per the reference decoder; distinct by input."
        .into();
    let total = if r.tier == Tier::Quick { 1 + 256 + 65536 } else { 1 + 256 + 65536 + (1u64 << 24) };
    r.run_enum("short", total, |i| BytesCase { b: nth_short(i) }, test_bytes);
    let n = r.n(100_000, 3_000_000);
    r.run_part("gen", n, 300, gen_bytes, test_bytes);
    r.require_label("accepted with backref", 2000);
    r.require_label("rejected: path", 500);
}
