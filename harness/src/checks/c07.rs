//! C07 — restriction flags only remove successes.

use crate::checks::progcase::{BIG_BUDGET, ProgCase, gen_prog_case, run_fresh, safe_unlimited, show_case};
use crate::dag::{Dag, Interner, build};
use crate::engine::{Runner, Verdict};
use crate::r#gen::atoms::int_bytes;
use crate::r#gen::programs::{GenProg, ProgCfg, nest_guards};
use crate::tape::Tape;
use crate::util::*;
use serde::{Deserialize, Serialize};

#[derive(Serialize, Deserialize, Clone, Debug)]
pub struct Case {
    pub c: ProgCase,
    /// restriction flags added on top of c.flags
    pub add: u32,
    /// heap limit used when LIMIT_HEAP is among the added flags
    pub heap_limit: u32,
}

const RESTRICT: [u32; 6] = [F_NO_UNKNOWN_OPS, F_CANONICAL_INTS, F_DISABLE_OP, F_LIMIT_SOFTFORK, F_LIMITS, F_LIMIT_HEAP];

pub fn test_case(c: &Case) -> Verdict {
    let pc = &c.c;
    if !pc.p.prog.is_valid() || !pc.p.env.is_valid() {
        return Verdict::discard();
    }
    let base = pc.flags & !c.add;
    let strict = base | c.add;
    let budget = match pc.budgets.first() {
        Some(b) if b % 3 == 0 => 1 + (b >> 8) % 5_000_000,
        _ => {
            if safe_unlimited(&pc.p) {
                0
            } else {
                BIG_BUDGET
            }
        }
    };
    let mut i = Interner::new();
    let hl = if c.add & F_LIMIT_HEAP != 0 { Some(c.heap_limit as usize) } else { None };
    let (Some(lenient), Some(restricted)) = (run_fresh(&mut i, &pc.p.prog, &pc.p.env, base, budget, None), run_fresh(&mut i, &pc.p.prog, &pc.p.env, strict, budget, hl)) else {
        return Verdict::pass(false).label("build failed under heap limit");
    };
    for r in [&lenient, &restricted] {
        if let Out::Panic(m) = &r.out {
            return Verdict::fail(format!("panic: {m}\n {}", show_case(pc)));
        }
    }
    let mut v = Verdict::pass(false);
    if let Out::Ok { cost, val } = &restricted.out {
        match &lenient.out {
            Out::Ok { cost: c2, val: v2 } if c2 == cost && v2 == val => {}
            other => {
                let msg = format!(
                    "adding restriction flags {} to {} changed a success: with the flags {} ; without them {}\n budget {budget} heap limit {hl:?}\n {}",
                    flag_names(c.add),
                    flag_names(base),
                    restricted.out.show(&i),
                    other.show(&i),
                    show_case(pc)
                );
                // known finding F11: CANONICAL_INTS without NO_UNKNOWN_OPS turns a guard whose
                // extension atom is a non-canonical integer into an "unknown softfork" (nil at
                // the declared cost) while the lenient run enters the guard and fails there
                if c.add & F_CANONICAL_INTS != 0 && strict & F_NO_UNKNOWN_OPS == 0 && has_guard_with_padded_extension(&pc.p.prog) {
                    return Verdict::fail_sig(msg, "canonical-ints-alone-demotes-malformed-guard-to-unknown-softfork");
                }
                return Verdict::fail(msg);
            }
        }
        let info = &pc.p.info;
        let sensitive = (c.add & F_NO_UNKNOWN_OPS != 0 && info.unknown_op)
            || (c.add & F_CANONICAL_INTS != 0 && info.noncanonical_int)
            || (c.add & F_LIMIT_SOFTFORK != 0 && info.guard)
            || (c.add & (F_DISABLE_OP | F_LIMITS) != 0 && pc.p.prog.n.iter().any(|n| matches!(n, crate::dag::N::A(b, _) if b.len() == 1 && [18u8, 19, 20, 50, 54, 60, 61].contains(&b[0]))))
            || (c.add & F_LIMIT_HEAP != 0);
        v = Verdict::pass(sensitive && *cost >= 20).label("restricted ok");
    } else if lenient.out.is_ok() {
        v = v.label(format!("bites:{}", restricted.out.kind()));
    }
    // RELAXED_BLS never removes or changes a success
    if base & F_RELAXED_BLS == 0 {
        let Some(relaxed) = run_fresh(&mut i, &pc.p.prog, &pc.p.env, base | F_RELAXED_BLS, budget, None) else { return v };
        if let Out::Ok { cost, val } = &lenient.out {
            match &relaxed.out {
                Out::Ok { cost: c2, val: v2 } if c2 == cost && v2 == val => {}
                other => {
                    return Verdict::fail(format!(
                        "adding RELAXED_BLS to {} changed a success: without {} ; with {}\n {}",
                        flag_names(base),
                        lenient.out.show(&i),
                        other.show(&i),
                        show_case(pc)
                    ));
                }
            }
        } else if relaxed.out.is_ok() {
            v = v.label("relaxed accepts more");
        }
    }
    v
}

/// does the program contain (softfork C (q . E) ...) where E is a non-canonical integer atom?
fn has_guard_with_padded_extension(d: &Dag) -> bool {
    use crate::dag::N;
    for n in &d.n {
        // (36 . (c . (ext . rest)))
        if let N::P(op, args) = n
            && matches!(&d.n[*op as usize], N::A(b, _) if b == &vec![36u8])
            && let N::P(_, rest) = &d.n[*args as usize]
            && let N::P(ext, _) = &d.n[*rest as usize]
        {
            // ext is usually (q . atom)
            let atom = match &d.n[*ext as usize] {
                N::P(qq, v) if matches!(&d.n[*qq as usize], N::A(b, _) if b == &vec![1u8]) => match &d.n[*v as usize] {
                    N::A(b, _) => Some(b.clone()),
                    _ => None,
                },
                _ => None,
            };
            if let Some(b) = atom
                && !b.is_empty()
                && b[0] == 0
                && (b.len() == 1 || b[1] & 0x80 == 0)
            {
                return true;
            }
        }
    }
    false
}

/// programs rich in flag-sensitive constructs
pub fn gen_sensitive(t: &mut Tape, flags: u32) -> Option<GenProg> {
    let mut d = Dag::new();
    fn call(d: &mut Dag, op: &[u8], args: &[u32]) -> u32 {
        let o = d.atom(op);
        let l = d.list(args);
        d.pair(o, l)
    }
    fn q(d: &mut Dag, v: u32) -> u32 {
        let one = d.atom(&[1]);
        d.pair(one, v)
    }
    let mut env = Dag::new();
    env.nil();
    let mut info = crate::r#gen::programs::ProgInfo::default();
    match t.below(5) {
        0 => {
            // operands just around the LIMITS / DISABLE_OP sizes
            let sizes = [255usize, 256, 257, 1023, 1024, 1025, 2047, 2048, 2049];
            let mk = |t: &mut Tape, d: &mut Dag| {
                let n = *t.pick(&sizes);
                let mut b = t.bytes(n);
                b[0] = 0x01;
                // one in three operands is a small value behind redundant sign-extension bytes: its atom is longer
                // than a limit while its magnitude is tiny (what a limit measures must not change what is charged)
                if t.chance(1, 3) {
                    let fill = if t.flip() { 0x00u8 } else { 0xff };
                    let keep = 1 + t.below_usize(3);
                    for x in b.iter_mut().take(n - keep) {
                        *x = fill;
                    }
                    if fill == 0 {
                        b[n - keep] &= 0x7f;
                    } else {
                        b[n - keep] |= 0x80;
                    }
                }
                let a = d.atom(&b);
                q(d, a)
            };
            let x = mk(t, &mut d);
            let y = mk(t, &mut d);
            let op = *t.pick(&[18u8, 19, 20, 61, 60, 50]);
            match op {
                60 => {
                    let e0 = d.atom(&[3]);
                    let e = q(&mut d, e0);
                    call(&mut d, &[60], &[x, e, y]);
                }
                50 => {
                    let g0 = d.atom(&crate::r#gen::programs::valid_g1(2));
                    let g = q(&mut d, g0);
                    call(&mut d, &[50], &[g, x]);
                }
                _ => {
                    call(&mut d, &[op], &[x, y]);
                }
            }
        }
        1 => {
            // nested guards around 20 deep
            let depth = 17 + t.below(8);
            let mut inner = Dag::new();
            let one = inner.atom(&[1]);
            let v = inner.atom(&int_bytes(t.below(1000) as i128));
            inner.pair(one, v);
            let mut e = Dag::new();
            e.nil();
            info.guard = true;
            let p = nest_guards(&inner, &e, depth, t.below(2), flags)?;
            return Some(GenProg { prog: p, env, info });
        }
        2 => {
            // non-canonical ints in softfork cost / extension
            info.guard = true;
            info.noncanonical_int = true;
            let c0 = d.atom(&[0x00, 0x00, 0xa1]); // 161 = 140 + 21 (quote cost 20 + 1?) -- recomputed below
            let _ = c0;
            let mut inner = Dag::new();
            let one = inner.atom(&[1]);
            let v = inner.atom(&[5]);
            inner.pair(one, v);
            let mut e = Dag::new();
            e.nil();
            let p = nest_guards(&inner, &e, 1, 0, flags)?;
            // pad the declared cost and/or extension
            let mut p2 = p.clone();
            let mut seen = 0;
            for n in p2.n.iter_mut() {
                if let crate::dag::N::A(b, _) = n
                    && (b.len() == 1 && b[0] == 160 || b.len() == 2)
                {
                    let _ = &b;
                }
                let _ = &mut seen;
            }
            // simple approach: rebuild by hand with padded atoms
            let cost_atom = p.n.iter().find_map(|n| if let crate::dag::N::A(b, _) = n { if b.len() >= 1 && b != &vec![1u8] && b != &vec![36u8] && b != &vec![5u8] && !b.is_empty() { Some(b.clone()) } else { None } } else { None })?;
            let mut padded = vec![0u8; 1 + t.below(2) as usize];
            padded.extend(cost_atom);
            let c1 = d.atom(&padded);
            let c = q(&mut d, c1);
            let ext_b: Vec<u8> = if t.flip() { vec![] } else { vec![0] };
            let e1 = d.atom(&ext_b);
            let ee = q(&mut d, e1);
            let i0 = d.append(&inner);
            let ip = q(&mut d, i0);
            let n0 = d.nil();
            let nq = q(&mut d, n0);
            call(&mut d, &[36], &[c, ee, ip, nq]);
            p2 = d.clone();
            return Some(GenProg { prog: p2, env, info });
        }
        3 => {
            // unknown opcodes with argument lists
            info.unknown_op = true;
            let x0 = d.atom(&t.bytes(5));
            let x = q(&mut d, x0);
            let code = match t.below(3) {
                0 => vec![0x7f],
                1 => vec![1 + t.below(2) as u8, (t.below(4) << 6) as u8],
                _ => vec![0, 0, 0x42],
            };
            let u = call(&mut d, &code, &[x, x]);
            let y0 = d.atom(&[7]);
            let y = q(&mut d, y0);
            call(&mut d, &[4], &[u, y]);
        }
        _ => {
            // BLS negate of invalid blobs
            let mut b = if t.flip() { t.bytes(48) } else { crate::r#gen::programs::valid_g1(3) };
            if t.flip() {
                b[5] ^= 0x10;
            }
            let x0 = d.atom(&b);
            let x = q(&mut d, x0);
            call(&mut d, &[51], &[x]);
        }
    }
    Some(GenProg { prog: d, env, info })
}

pub fn gen_case(t: &mut Tape, cfg: &ProgCfg) -> Case {
    let mut c = gen_prog_case(t, cfg);
    if t.chance(1, 3)
        && let Some(p) = gen_sensitive(t, c.flags & !(F_LIMIT_SOFTFORK))
    {
        c.p = p;
    }
    let add = match t.weighted(&[6, 2, 2]) {
        0 => *t.pick(&RESTRICT),
        1 => F_MEMPOOL,
        _ => {
            let mut a = 0;
            for f in RESTRICT {
                if t.flip() {
                    a |= f;
                }
            }
            a
        }
    };
    let heap = {
        let mut a = clvmr::allocator::Allocator::new();
        let _ = build(&mut a, &c.p.prog);
        let _ = build(&mut a, &c.p.env);
        a.heap_size() as u32
    };
    let heap_limit = heap + match t.below(3) {
        0 => t.below(300),
        1 => t.below(20_000),
        _ => 500_000_000,
    };
    Case { c, add, heap_limit }
}

pub fn run(r: &mut Runner) {
    r.rule = "generated programs plus a family rich in flag-sensitive constructs (operands at 255..2049 bytes for * / divmod mod modpow g1_multiply, guards nested 17..24 deep with exact costs, padded softfork cost/extension atoms, unknown opcodes, g1_negate of invalid blobs); base flag set F and a restriction subset R (single flag, MEMPOOL_MODE, random subset; LIMIT_HEAP comes with a generated small heap limit). \
        Oracle: success under F|R implies the same (result, cost) under F; success under F implies the same under F|RELAXED_BLS. Non-trivial = the restricted run succeeded and the program contains a construct an added flag inspects; distinct by case. Labels bites:* count the converse (lenient succeeds, restricted fails)."
        .into();
    let cfg = ProgCfg { mutate_pct: 15, raw_pct: 3, reprs: false, env_big_pct: 25, ..Default::default() };
    let n = r.n(30_000, 800_000);
    r.run_part("programs", n, 700, |t: &mut Tape| gen_case(t, &cfg), test_case);
    r.require_label("restricted ok", 2000);
    for l in ["bites:Unimplemented", "bites:InvalidOpArg", "bites:SoftforkStackDepthExceeded", "bites:OutOfMemory", "relaxed accepts more"] {
        r.require_label(l, 20);
    }
}
