//! C05 — fast paths and diagnostic build features are unobservable.

use crate::checks::c25::{OpCase, gen_op_case};
use crate::checks::progcase::{BIG_BUDGET, ProgCase, gen_prog_case, safe_unlimited, show_case};
use crate::dag::{Dag, Repr};
use crate::engine::{Runner, Verdict};
use crate::oracle_srv::{Client, Req, Resp, handle};
use crate::r#gen::atoms::{gen_repr, int_bytes};
use crate::r#gen::programs::{GenProg, ProgCfg};
use crate::tape::Tape;
use crate::util::*;
use std::cell::RefCell;

const NOFAST: &str = "/verif/build/target-nofast/release/vh";
const DIAG: &str = "/verif/build/target-diag/release/vh";

thread_local! {
    static CLIENTS: RefCell<Option<(Client, Client)>> = const { RefCell::new(None) };
}

fn with_clients<T>(f: impl FnOnce(&mut Client, &mut Client) -> T) -> Option<T> {
    CLIENTS.with(|c| {
        let mut c = c.borrow_mut();
        if c.is_none() {
            let a = Client::spawn(NOFAST).ok()?;
            let b = Client::spawn(DIAG).ok()?;
            *c = Some((a, b));
        }
        let (a, b) = c.as_mut().unwrap();
        Some(f(a, b))
    })
}

fn strip(mut r: Resp) -> Resp {
    r.pre_eval_calls = 0;
    r
}

fn compare(req: &Req, what: &str, eligible: bool) -> Verdict {
    let base = handle(req);
    let Some((nf, dg)) = with_clients(|a, b| (a.call(req), b.call(req))) else {
        return Verdict::fail("cannot start the variant builds (infrastructure)".to_string());
    };
    let (Some(nf), Some(dg)) = (nf, dg) else {
        return Verdict::fail(format!("a variant build died on this case (crash in no-fastpath or counters+pre-eval build)\n {what}"));
    };
    let calls = dg.pre_eval_calls;
    let (b0, n0, d0) = (strip(base), strip(nf), strip(dg));
    if b0 != n0 {
        return Verdict::fail(format!("default build and no-fastpath build differ:\n default:     {b0:?}\n no-fastpath: {n0:?}\n {what}"));
    }
    if b0 != d0 {
        return Verdict::fail(format!("default build and counters+pre-eval build differ:\n default: {b0:?}\n diag:    {d0:?}\n {what}"));
    }
    let mut v = Verdict::pass(eligible && b0.kind == "Ok").label(format!("outcome:{}", b0.kind));
    if calls > 0 {
        v = v.label("pre-eval observed");
    }
    v
}

pub fn test_prog(c: &ProgCase) -> Verdict {
    if !c.p.prog.is_valid() || !c.p.env.is_valid() {
        return Verdict::discard();
    }
    let budget = match c.budgets.first() {
        Some(b) if b % 3 == 0 => 1 + (b >> 8) % 3_000_000,
        _ => {
            if safe_unlimited(&c.p) {
                0
            } else {
                BIG_BUDGET
            }
        }
    };
    let req = Req::Prog { prog: c.p.prog.clone(), env: c.p.env.clone(), flags: c.flags, budget };
    // eligible: contains an operator with a fast path and a small-int operand
    let eligible = c.p.prog.n.iter().any(|n| matches!(n, crate::dag::N::A(b, _) if b.len() == 1 && [11u8, 16, 17, 18, 21].contains(&b[0])));
    compare(&req, &format!("budget {budget} {}", show_case(c)), eligible)
}

pub fn test_op(c: &OpCase) -> Verdict {
    if !c.args.is_valid() {
        return Verdict::discard();
    }
    let req = Req::Op { op: c.op.clone(), args: c.args.clone(), flags: c.flags & F_ALL, max_cost: c.max_cost };
    let eligible = ["add", "subtract", "multiply", "gr", "sha256"].contains(&c.op.as_str());
    compare(&req, &format!("operator {} args {} flags {} max_cost {}", c.op, crate::dag::dag_hex(&c.args, 600), flag_names(c.flags & F_ALL), c.max_cost), eligible)
}

/// direct operator calls biased to fast-path eligibility
fn gen_fast_op(t: &mut Tape) -> OpCase {
    let op = *t.pick(&["add", "subtract", "gr", "sha256", "multiply", "add", "subtract"]);
    let mut d = Dag::new();
    let n = if op == "gr" { 2 } else { t.below(5) as usize };
    let mut items = Vec::new();
    if op == "sha256" && t.chance(3, 4) {
        // (sha256 1 n), n <= 40, in every representation
        let r1 = gen_repr(t);
        let r2 = gen_repr(t);
        items.push(d.atom_r(&[1], r1));
        let nb = int_bytes(t.below(42) as i128);
        items.push(d.atom_r(&nb, r2));
        if t.chance(1, 6) {
            items.push(d.atom(&[]));
        }
    } else {
        for _ in 0..n {
            let v: i128 = match t.below(5) {
                0 => t.below(300) as i128,
                1 => (1i128 << (8 * (1 + t.below(4)) - 1)) - t.below(3) as i128,
                2 => (1i128 << 26) - t.below(3) as i128,
                3 => t.word() as i128 & 0x3ff_ffff,
                _ => crate::r#gen::atoms::gen_int(t),
            };
            let mut b = int_bytes(v);
            if t.chance(1, 10) {
                b = crate::r#gen::atoms::pad_int(t, &b);
            }
            let r = if t.chance(2, 3) { Repr::Nat } else { gen_repr(t) };
            items.push(d.atom_r(&b, r));
        }
    }
    let term = if t.chance(1, 30) { d.atom(&[1]) } else { d.nil() };
    d.list_term(&items, term);
    let max_cost = match t.below(3) {
        0 => u64::MAX,
        1 => 100 + t.below(3000) as u64,
        _ => t.below(100000) as u64,
    };
    OpCase { op: op.to_string(), args: d, flags: t.word() & F_ALL, max_cost }
}

/// programs made of paths (inline 7/15/23-bit paths and heap paths) into deep environments
fn gen_path_prog(t: &mut Tape) -> GenProg {
    let bits = *t.pick(&[1u32, 6, 7, 8, 14, 15, 16, 22, 23, 24, 25, 26]);
    let mut v: u64 = 1 << bits;
    v |= t.u64() & ((1 << bits) - 1);
    // environment built along the path so that the lookup succeeds (most of the time)
    let mut env = Dag::new();
    let mut cur = env.atom(&[0x2a]);
    let cut = if t.chance(1, 6) { t.below(bits) } else { 0 }; // sometimes too shallow: path into atom
    for k in (cut..bits).rev() {
        let other = env.atom(&int_bytes(k as i128 + 100));
        cur = if (v >> k) & 1 == 1 { env.pair(other, cur) } else { env.pair(cur, other) };
    }
    let mut b = int_bytes(v as i128);
    if t.chance(1, 8) {
        let mut p = vec![0u8; 1 + t.below(2) as usize];
        p.extend(b);
        b = p;
    }
    let mut d = Dag::new();
    let r = gen_repr(t);
    let p = d.atom_r(&b, r);
    if t.flip() {
        // (c PATH PATH2)
        let p2 = d.atom_r(&int_bytes((1u64 << t.below(20)) as i128 + t.below(5) as i128), gen_repr(t));
        let o = d.atom(&[4]);
        let l = d.list(&[p, p2]);
        d.pair(o, l);
    }
    GenProg { prog: d, env, info: Default::default() }
}

pub fn run(r: &mut Runner) {
    r.rule = "part programs: generated programs (plus a family of environment paths with 7/15/23/25 significant bits as inline and heap atoms) x all flag sets x budgets; part paths: raw path atoms following generated spines (dense around 7/8, 15/16, 23/24, 31/32 steps; with/without leading zero bytes; inline, heap copy and view); part operators: direct calls of every operator on arbitrary argument trees; part fastops: + - > sha256 * on inline small integers at every width boundary, (sha256 1 n) with n <= 41 in every representation. \
        Oracle: the same case is executed by three separately built binaries of this harness (default, clvmr/no-fastpath, clvmr/counters+pre-eval with an observe-only pre/post-eval callback) and the outcome records (result hash, cost, error kind and message, atom/pair/heap counts) must be identical. \
        Non-trivial = fast-path eligible by construction and successful; distinct by case."
        .into();
    if !std::path::Path::new(NOFAST).exists() || !std::path::Path::new(DIAG).exists() {
        r.inconclusive.push("variant builds missing (run through bin/check)".into());
        return;
    }
    let cfg = ProgCfg { mutate_pct: 20, raw_pct: 5, reprs: true, ..Default::default() };
    let n = r.n(20_000, 500_000);
    r.run_part(
        "programs",
        n,
        600,
        |t: &mut Tape| {
            let mut c = gen_prog_case(t, &cfg);
            if t.chance(1, 4) {
                c.p = gen_path_prog(t);
            }
            c
        },
        test_prog,
    );
    // raw path atoms (no canonical-integer leading zero, all-ones paths, every representation) into deep environments
    let n = r.n(20_000, 500_000);
    r.run_part(
        "paths",
        n,
        130,
        |t: &mut Tape| {
            let mut c = crate::checks::c01::gen_path_case(t);
            c.flags = crate::r#gen::programs::gen_flags(t);
            c
        },
        test_prog,
    );
    let n = r.n(20_000, 500_000);
    r.run_part("operators", n, 200, gen_op_case, test_op);
    let n = r.n(30_000, 1_000_000);
    r.run_part("fastops", n, 60, gen_fast_op, test_op);
    r.require_label("pre-eval observed", 1000);
}
