//! C30 — RuntimeDialect with the standard table matches ChiaDialect.

use crate::checks::progcase::{BIG_BUDGET, ProgCase, gen_prog_case, safe_unlimited, show_case};
use crate::dag::{Interner, build};
use crate::engine::{Runner, Verdict, guard};
use crate::r#gen::programs::ProgCfg;
use crate::tape::Tape;
use crate::util::*;
use clvmr::allocator::{Allocator, NodePtr};
use clvmr::chia_dialect::{ChiaDialect, ClvmFlags};
use clvmr::cost::Cost;
use clvmr::dialect::{Dialect, OperatorSet};
use clvmr::reduction::Response;
use clvmr::run_program::run_program;
use clvmr::runtime_dialect::RuntimeDialect;
use std::cell::Cell;
use std::collections::{BTreeSet, HashMap};

/// the standard operator-name table (names of f_table.rs mapped to ChiaDialect's numbers)
pub const TABLE: [(&str, u8); 44] = [
    ("op_if", 3),
    ("op_cons", 4),
    ("op_first", 5),
    ("op_rest", 6),
    ("op_listp", 7),
    ("op_raise", 8),
    ("op_eq", 9),
    ("op_gr_bytes", 10),
    ("op_sha256", 11),
    ("op_substr", 12),
    ("op_strlen", 13),
    ("op_concat", 14),
    ("op_add", 16),
    ("op_subtract", 17),
    ("op_multiply", 18),
    ("op_div", 19),
    ("op_divmod", 20),
    ("op_gr", 21),
    ("op_ash", 22),
    ("op_lsh", 23),
    ("op_logand", 24),
    ("op_logior", 25),
    ("op_logxor", 26),
    ("op_lognot", 27),
    ("op_point_add", 29),
    ("op_pubkey_for_exp", 30),
    ("op_not", 32),
    ("op_any", 33),
    ("op_all", 34),
    ("op_g1_subtract", 49),
    ("op_g1_multiply", 50),
    ("op_g1_negate", 51),
    ("op_g2_add", 52),
    ("op_g2_subtract", 53),
    ("op_g2_multiply", 54),
    ("op_g2_negate", 55),
    ("op_g1_map", 56),
    ("op_g2_map", 57),
    ("op_bls_pairing_identity", 58),
    ("op_bls_verify", 59),
    ("op_modpow", 60),
    ("op_mod", 61),
    ("op_secp256k1_verify", 64),
    ("op_secp256r1_verify", 65),
];

/// ChiaDialect wrapper that records which operators ran and whether an excluded construct was reached
struct Watch {
    inner: ChiaDialect,
    excluded: Cell<bool>,
    ops: std::cell::RefCell<BTreeSet<u8>>,
}

impl Dialect for Watch {
    fn quote_kw(&self) -> u32 {
        1
    }
    fn apply_kw(&self) -> u32 {
        2
    }
    fn softfork_kw(&self) -> u32 {
        36
    }
    fn softfork_extension(&self, ext: u32) -> OperatorSet {
        let r = self.inner.softfork_extension(ext);
        if r != OperatorSet::Default {
            self.excluded.set(true);
        }
        r
    }
    fn flags(&self) -> ClvmFlags {
        self.inner.flags()
    }
    fn gc_candidate(&self, a: &Allocator, op: NodePtr) -> bool {
        self.inner.gc_candidate(a, op)
    }
    fn op(&self, a: &mut Allocator, op: NodePtr, args: NodePtr, max_cost: Cost, ext: OperatorSet) -> Response {
        let b = a.atom(op).as_ref().to_vec();
        if b == [48] || b == [62] || b == [63] || b == [0x13, 0xd6, 0x1f, 0x00] || b == [0x1c, 0x3a, 0x8f, 0x00] {
            self.excluded.set(true);
        }
        if b.len() == 1 && TABLE.iter().any(|(_, c)| *c == b[0]) {
            self.ops.borrow_mut().insert(b[0]);
        }
        self.inner.op(a, op, args, max_cost, ext)
    }
    fn allow_unknown_ops(&self) -> bool {
        self.inner.allow_unknown_ops()
    }
}

pub fn test_prog(c: &ProgCase) -> Verdict {
    if !c.p.prog.is_valid() || !c.p.env.is_valid() {
        return Verdict::discard();
    }
    // flags minus ENABLE_GC and DISABLE_OP; secp forced on; operators RuntimeDialect's table lacks are off
    let bits = (c.flags & !(F_ENABLE_GC | F_DISABLE_OP | F_KECCAK | F_SHA256_TREE)) | F_SECP;
    let budget = match c.budgets.first() {
        Some(b) if b % 3 == 0 => 1 + (b >> 8) % 5_000_000,
        _ => {
            if safe_unlimited(&c.p) {
                0
            } else {
                BIG_BUDGET
            }
        }
    };
    let mut i = Interner::new();
    // ChiaDialect side
    let mut a1 = Allocator::new();
    let (Ok(p1), Ok(e1)) = (build(&mut a1, &c.p.prog), build(&mut a1, &c.p.env)) else { return Verdict::discard() };
    let w = Watch { inner: ChiaDialect::new(flags(bits)), excluded: Cell::new(false), ops: Default::default() };
    let r1 = guard(|| run_program(&mut a1, &w, p1, e1, budget));
    let o1 = to_out(&a1, &mut i, r1);
    if w.excluded.get() {
        return Verdict::discard();
    }
    // RuntimeDialect side
    let mut a2 = Allocator::new();
    let (Ok(p2), Ok(e2)) = (build(&mut a2, &c.p.prog), build(&mut a2, &c.p.env)) else { return Verdict::discard() };
    let map: HashMap<String, Vec<u8>> = TABLE.iter().map(|(n, c)| (n.to_string(), vec![*c])).collect();
    let rd = RuntimeDialect::new(map, vec![1], vec![2], flags(bits));
    let r2 = guard(|| run_program(&mut a2, &rd, p2, e2, budget));
    let o2 = to_out(&a2, &mut i, r2);
    let same = match (&o1, &o2) {
        (Out::Err { kind: k1, .. }, Out::Err { kind: k2, .. }) => k1 == k2,
        (a, b) => a == b,
    };
    if !same {
        return Verdict::fail(format!(
            "RuntimeDialect (standard table) and ChiaDialect disagree (flags {}, budget {budget}):\n ChiaDialect:    {}\n RuntimeDialect: {}\n {}",
            flag_names(bits),
            o1.show(&i),
            o2.show(&i),
            show_case(c)
        ));
    }
    let n_ops = w.ops.borrow().len();
    let mut v = Verdict::pass(o1.is_ok() && n_ops >= 2);
    for o in w.ops.borrow().iter() {
        v = v.label(format!("op{o}"));
    }
    v
}

pub fn run(r: &mut Runner) {
    r.rule = "generated programs over the opcodes of the standard table (all 44 names of f_table.rs at ChiaDialect's numbers; secp as 64/65 with ENABLE_SECP_OPS on; keccak/sha256tree flags off) and opcodes unknown to both dialects; cases in which opcode 48, 62, 63, a 4-byte secp code or a guard with a known extension is reached dynamically are discarded (counted). \
        Oracle: RuntimeDialect(standard table, quote 1, apply 2) vs ChiaDialect with the same flags minus ENABLE_GC and DISABLE_OP: same result, cost and error kind. Non-trivial = success executing >= 2 distinct table operators; distinct by case."
        .into();
    let cfg = ProgCfg { mutate_pct: 20, raw_pct: 5, reprs: false, guards: false, ..Default::default() };
    let n = r.n(20_000, 600_000);
    r.run_part("programs", n, 600, |t: &mut Tape| gen_prog_case(t, &cfg), test_prog);
    // every table operator must have been executed
    for (_, c) in TABLE {
        r.require_label(&format!("op{c}"), 5);
    }
}
