//! C02 — cost budget is sound, monotone and tight.

use crate::checks::progcase::{BIG_BUDGET, ProgCase, gen_prog_case, run_fresh, safe_unlimited, show_case};
use crate::dag::Interner;
use crate::engine::{Runner, Verdict};
use crate::r#gen::programs::ProgCfg;
use crate::tape::Tape;
use crate::util::Out;

pub fn test_prog(c: &ProgCase) -> Verdict {
    if !c.p.prog.is_valid() || !c.p.env.is_valid() {
        return Verdict::discard();
    }
    let mut i = Interner::new();
    let unlimited = safe_unlimited(&c.p);
    let top: u64 = if unlimited { 0 } else { BIG_BUDGET };
    let Some(base) = run_fresh(&mut i, &c.p.prog, &c.p.env, c.flags, top, None) else {
        return Verdict::discard();
    };
    let ctx = |what: &str| format!("{what}\n {}", show_case(c));
    if base.bad_exempt {
        return Verdict::fail(ctx("a guard was given the cost-exempt (pre-hard-fork) operator set although NEW_COST_MODEL is not set"));
    }
    match &base.out {
        Out::Panic(m) => Verdict::fail(ctx(&format!("panic at budget {top}: {m}"))),
        Out::Ok { cost, val } => {
            let (cc, vv) = (*cost, *val);
            if top != 0 && cc > top {
                return Verdict::fail(ctx(&format!("succeeded under budget {top} with cost {cc} > budget")));
            }
            let exempt = base.exempt;
            // budgets to probe: C, C-1, C+1, u64::MAX, 0, fractions and offsets from the case
            let mut probes: Vec<u64> = vec![cc, cc.saturating_sub(1), cc + 1, u64::MAX];
            if unlimited {
                probes.push(0);
            }
            for b in &c.budgets {
                probes.push(match b % 4 {
                    0 => (*b >> 8) % cc.max(1),            // below C
                    1 => cc + ((*b >> 8) % 1000),          // just above
                    2 => ((cc as u128 * ((*b >> 8) % 1000) as u128) / 1000) as u64, // fraction
                    _ => cc.saturating_add(*b >> 20),       // far above
                });
            }
            let mut min_ok: Option<u64> = None;
            for m in probes {
                let Some(r) = run_fresh(&mut i, &c.p.prog, &c.p.env, c.flags, m, None) else { continue };
                let eff = if m == 0 { u64::MAX } else { m };
                match &r.out {
                    Out::Panic(p) => return Verdict::fail(ctx(&format!("panic at budget {m}: {p}"))),
                    Out::Ok { cost, val } => {
                        if *cost != cc || *val != vv {
                            return Verdict::fail(ctx(&format!(
                                "budget {m} gives cost {cost} value {} but budget {top} gave cost {cc} value {}",
                                i.to_hex(*val, 200),
                                i.to_hex(vv, 200)
                            )));
                        }
                        if *cost > eff {
                            return Verdict::fail(ctx(&format!("succeeded under budget {m} with cost {cost}")));
                        }
                        if eff < cc && !(exempt || r.exempt) {
                            return Verdict::fail(ctx(&format!("budget {m} < cost {cc} succeeded")));
                        }
                        min_ok = Some(min_ok.map_or(eff, |x| x.min(eff)));
                    }
                    Out::Err { kind, msg } => {
                        if eff >= cc && !(exempt || r.exempt) {
                            return Verdict::fail(ctx(&format!(
                                "the program costs {cc} (budget {top}) but fails under budget {m} >= {cc} with {kind}: {msg}"
                            )));
                        }
                        if kind != "CostExceeded" {
                            return Verdict::fail(ctx(&format!(
                                "the program succeeds with cost {cc}; under the smaller budget {m} it fails with {kind} ('{msg}') instead of cost exceeded"
                            )));
                        }
                        // upward closure: no failing budget above a succeeding one
                        if let Some(mo) = min_ok
                            && eff > mo
                        {
                            return Verdict::fail(ctx(&format!("budget {m} fails although the smaller budget {mo} succeeds")));
                        }
                    }
                }
            }
            // re-check upward closure across the whole probe set (order independent)
            Verdict::pass(cc >= 100)
                .label(if exempt { "exempt guard entered" } else if base.known_guards > 0 { "guard entered" } else { "no guard" })
                .label("base ok")
        }
        Out::Err { kind, .. } => {
            if top != 0 && kind == "CostExceeded" {
                return Verdict::discard(); // more expensive than the exploration bound
            }
            if top == 0 && kind == "CostExceeded" {
                // "a budget of 0 means unlimited": it may only fail on cost where the largest budget fails too
                if let Some(r) = run_fresh(&mut i, &c.p.prog, &c.p.env, c.flags, u64::MAX, None)
                    && let Out::Ok { cost, .. } = &r.out
                {
                    return Verdict::fail(ctx(&format!("budget 0 (unlimited) fails with cost exceeded but budget u64::MAX succeeds with cost {cost}")));
                }
            }
            // fails at the top budget: must fail at every budget
            for b in &c.budgets {
                let m = 1 + b % BIG_BUDGET;
                let Some(r) = run_fresh(&mut i, &c.p.prog, &c.p.env, c.flags, m, None) else { continue };
                match &r.out {
                    Out::Panic(p) => return Verdict::fail(ctx(&format!("panic at budget {m}: {p}"))),
                    Out::Ok { cost, .. } => {
                        return Verdict::fail(ctx(&format!(
                            "fails with {kind} at budget {top} but succeeds (cost {cost}) at the smaller budget {m}"
                        )));
                    }
                    _ => {}
                }
            }
            Verdict::pass(false).label(format!("base err:{kind}"))
        }
    }
}

/// `(op (q . a1) (q . a2) ...)` for an operator call of the C10 generator, with value substitutions that make results
/// collapse (zero / nil / one / minus one) so that early internal cost checks and the finally charged cost can disagree
pub fn gen_opcall(t: &mut Tape) -> ProgCase {
    use crate::dag::{Dag, N, Repr};
    let heavy = t.chance(1, 15);
    let mut c = crate::checks::c10::gen_case(t, heavy);
    let nodes = crate::model::costmodel::arg_nodes(&c.args);
    if !nodes.is_empty() && t.chance(2, 5) {
        let k = nodes[t.below_usize(nodes.len())] as usize;
        if matches!(c.args.n[k], N::A(..)) {
            let v: &[u8] = match t.below(5) {
                0 => &[],
                1 => &[0],
                2 => &[1],
                3 => &[0xff],
                _ => &[0, 0],
            };
            c.args.n[k] = N::A(v.to_vec(), if t.flip() { Repr::Nat } else { Repr::Heap });
        }
    }
    let mut fl = crate::util::F_KECCAK | crate::util::F_SHA256_TREE | crate::util::F_SECP;
    if c.new_model {
        fl |= crate::util::F_NEW_COST;
    }
    if c.malachite {
        fl |= crate::util::F_MALACHITE;
    }
    if t.chance(1, 4) {
        fl |= 0x40; // LIMITS
    }
    if t.chance(1, 4) {
        fl |= 0x20; // ENABLE_GC
    }
    let mut d = Dag::new();
    let env = {
        let mut e = Dag::new();
        e.nil();
        e
    };
    let code = crate::checks::c10::opcode(&c.op).unwrap_or(vec![0x7f]);
    // copy the argument dag, quote every argument
    let base = d.append(&c.args);
    let off = base + 1 - c.args.n.len() as u32;
    let one = d.atom(&[1]);
    let mut items = Vec::new();
    for n in &nodes {
        items.push(d.pair(one, off + *n));
    }
    let list = d.list(&items);
    let o = d.atom(&code);
    d.pair(o, list);
    let nb = 1 + t.below(4);
    ProgCase { p: crate::r#gen::programs::GenProg { prog: d, env, info: Default::default() }, flags: fl, budgets: (0..nb).map(|_| t.u64()).collect() }
}

/// softfork invocations with very large declared costs (charged as declared on the unknown paths)
pub fn gen_softfork_huge(t: &mut Tape) -> ProgCase {
    use crate::dag::Dag;
    let mut d = Dag::new();
    let cost: u64 = match t.below(6) {
        0 => (1u64 << 63) + t.below(1000) as u64,
        1 => (1u64 << 63) - 1 - t.below(1000) as u64,
        2 => u64::MAX - t.below(2000) as u64,
        3 => (1u64 << 62) + t.word() as u64,
        4 => (1u64 << 32) + t.word() as u64,
        _ => t.u64(),
    };
    let one = d.atom(&[1]);
    let cb = crate::r#gen::atoms::int_bytes(cost as i128);
    let ca = d.atom(&cb);
    let mut items = vec![d.pair(one, ca)];
    // 1 argument, or 4 arguments with an unknown extension
    if t.flip() {
        let ext = d.atom(&crate::r#gen::atoms::int_bytes(2 + t.below(1000) as i128));
        items.push(d.pair(one, ext));
        let n1 = d.nil();
        items.push(d.pair(one, n1));
        let n2 = d.nil();
        items.push(d.pair(one, n2));
    }
    let list = d.list(&items);
    let o = d.atom(&[36]);
    d.pair(o, list);
    let env = {
        let mut e = Dag::new();
        e.nil();
        e
    };
    let fl = if t.flip() { 0 } else { crate::util::F_NEW_COST };
    ProgCase { p: crate::r#gen::programs::GenProg { prog: d, env, info: Default::default() }, flags: fl, budgets: vec![t.u64(), t.u64()] }
}

pub fn run(r: &mut Runner) {
    r.rule = "generated programs (typed grammar, all operators, guards with pre-computed costs, mutation layer) x flag sets; each is run at an unlimited (or 4*10^8) budget and then at C, C-1, C+1, u64::MAX, 0 and generated budgets below/above/fractions of C. \
        Part opcalls: every operator called as (op (q . a1) ...) on the argument lists of the C10 generator (sizes up to hundreds of KB) with zero/nil/one/minus-one substitutions, so that internal early cost checks are compared with the finally charged cost at C and C-1. Part softfork-huge: softfork invocations with declared costs around 2^32, 2^62, 2^63 and 2^64 (budget 0 must behave like the largest budget). \
        Non-trivial = the program succeeds with cost >= 100 (C and C-1 are always exercised); distinct by case."
        .into();
    r.assumptions = vec!["programs that may loop (raw, mutated or recursive) use 4*10^8 as their top budget; those exceeding it are discarded (counted)".into()];
    let cfg = ProgCfg { mutate_pct: 25, raw_pct: 5, reprs: false, ..Default::default() };
    let n = r.n(15_000, 500_000);
    r.run_part("programs", n, 600, |t: &mut Tape| gen_prog_case(t, &cfg), test_prog);
    let n = r.n(60_000, 1_500_000);
    r.run_part("opcalls", n, 200, gen_opcall, test_prog);
    let n = r.n(2_000, 50_000);
    r.run_part("softfork-huge", n, 20, gen_softfork_huge, test_prog);
    r.require_label("guard entered", 100);
    r.require_label("exempt guard entered", 20);
}
