//! C02 — cost budget is sound, monotone and tight.

use crate::checks::progcase::{BIG_BUDGET, ProgCase, gen_prog_case, run_fresh, safe_unlimited, show_case};
use crate::dag::Interner;
use crate::engine::{Runner, Verdict};
use crate::r#gen::programs::ProgCfg;
use crate::tape::Tape;
use crate::util::Out;

pub fn test_prog(c: &ProgCase) -> Verdict {
    if !c.p.prog.is_valid() || !c.p.env.is_valid() {
        return Verdict::discard();
    }
    let mut i = Interner::new();
    let unlimited = safe_unlimited(&c.p);
    let top: u64 = if unlimited { 0 } else { BIG_BUDGET };
    let Some(base) = run_fresh(&mut i, &c.p.prog, &c.p.env, c.flags, top, None) else {
        return Verdict::discard();
    };
    let ctx = |what: &str| format!("{what}\n {}", show_case(c));
    match &base.out {
        Out::Panic(m) => Verdict::fail(ctx(&format!("panic at budget {top}: {m}"))),
        Out::Ok { cost, val } => {
            let (cc, vv) = (*cost, *val);
            if top != 0 && cc > top {
                return Verdict::fail(ctx(&format!("succeeded under budget {top} with cost {cc} > budget")));
            }
            let exempt = base.exempt;
            // budgets to probe: C, C-1, C+1, u64::MAX, 0, fractions and offsets from the case
            let mut probes: Vec<u64> = vec![cc, cc.saturating_sub(1), cc + 1, u64::MAX];
            if unlimited {
                probes.push(0);
            }
            for b in &c.budgets {
                probes.push(match b % 4 {
                    0 => (*b >> 8) % cc.max(1),            // below C
                    1 => cc + ((*b >> 8) % 1000),          // just above
                    2 => ((cc as u128 * ((*b >> 8) % 1000) as u128) / 1000) as u64, // fraction
                    _ => cc.saturating_add(*b >> 20),       // far above
                });
            }
            let mut min_ok: Option<u64> = None;
            for m in probes {
                let Some(r) = run_fresh(&mut i, &c.p.prog, &c.p.env, c.flags, m, None) else { continue };
                let eff = if m == 0 { u64::MAX } else { m };
                match &r.out {
                    Out::Panic(p) => return Verdict::fail(ctx(&format!("panic at budget {m}: {p}"))),
                    Out::Ok { cost, val } => {
                        if *cost != cc || *val != vv {
                            return Verdict::fail(ctx(&format!(
                                "budget {m} gives cost {cost} value {} but budget {top} gave cost {cc} value {}",
                                i.to_hex(*val, 200),
                                i.to_hex(vv, 200)
                            )));
                        }
                        if *cost > eff {
                            return Verdict::fail(ctx(&format!("succeeded under budget {m} with cost {cost}")));
                        }
                        if eff < cc && !(exempt || r.exempt) {
                            return Verdict::fail(ctx(&format!("budget {m} < cost {cc} succeeded")));
                        }
                        min_ok = Some(min_ok.map_or(eff, |x| x.min(eff)));
                    }
                    Out::Err { kind, msg } => {
                        if eff >= cc && !(exempt || r.exempt) {
                            return Verdict::fail(ctx(&format!(
                                "the program costs {cc} (budget {top}) but fails under budget {m} >= {cc} with {kind}: {msg}"
                            )));
                        }
                        if kind != "CostExceeded" {
                            return Verdict::fail(ctx(&format!(
                                "the program succeeds with cost {cc}; under the smaller budget {m} it fails with {kind} ('{msg}') instead of cost exceeded"
                            )));
                        }
                        // upward closure: no failing budget above a succeeding one
                        if let Some(mo) = min_ok
                            && eff > mo
                        {
                            return Verdict::fail(ctx(&format!("budget {m} fails although the smaller budget {mo} succeeds")));
                        }
                    }
                }
            }
            // re-check upward closure across the whole probe set (order independent)
            Verdict::pass(cc >= 100)
                .label(if exempt { "exempt guard entered" } else if base.known_guards > 0 { "guard entered" } else { "no guard" })
                .label("base ok")
        }
        Out::Err { kind, .. } => {
            if top != 0 && kind == "CostExceeded" {
                return Verdict::discard(); // more expensive than the exploration bound
            }
            // fails at the top budget: must fail at every budget
            for b in &c.budgets {
                let m = 1 + b % BIG_BUDGET;
                let Some(r) = run_fresh(&mut i, &c.p.prog, &c.p.env, c.flags, m, None) else { continue };
                match &r.out {
                    Out::Panic(p) => return Verdict::fail(ctx(&format!("panic at budget {m}: {p}"))),
                    Out::Ok { cost, .. } => {
                        return Verdict::fail(ctx(&format!(
                            "fails with {kind} at budget {top} but succeeds (cost {cost}) at the smaller budget {m}"
                        )));
                    }
                    _ => {}
                }
            }
            Verdict::pass(false).label(format!("base err:{kind}"))
        }
    }
}

pub fn run(r: &mut Runner) {
    r.rule = "generated programs (typed grammar, all operators, guards with pre-computed costs, mutation layer) x flag sets; each is run at an unlimited (or 4*10^8) budget and then at C, C-1, C+1, u64::MAX, 0 and generated budgets below/above/fractions of C. \
        Non-trivial = the program succeeds with cost >= 100 (C and C-1 are always exercised); distinct by case."
        .into();
    r.assumptions = vec!["programs that may loop (raw, mutated or recursive) use 4*10^8 as their top budget; those exceeding it are discarded (counted)".into()];
    let cfg = ProgCfg { mutate_pct: 25, raw_pct: 5, reprs: false, ..Default::default() };
    let n = r.n(15_000, 500_000);
    r.run_part("programs", n, 600, |t: &mut Tape| gen_prog_case(t, &cfg), test_prog);
    r.require_label("guard entered", 100);
    r.require_label("exempt guard entered", 20);
}
