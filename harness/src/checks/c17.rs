//! C17 — back-reference serialization round-trips and never grows.

use crate::checks::c15::TreeCase;
use crate::dag::{Interner, build, unshare};
use crate::engine::{Runner, Verdict, guard};
use crate::r#gen::trees::{TreeCfg, gen_tree};
use crate::model::refserde::{classic_len, decode_backrefs};
use crate::tape::Tape;
use crate::util::hexs;
use clvmr::allocator::Allocator;
use clvmr::serde::{
    is_canonical_serialization, node_from_bytes_backrefs, node_from_bytes_backrefs_old,
    node_to_bytes_backrefs_limit,
};

const LIMIT: usize = 1 << 30;

pub fn test_tree(c: &TreeCase) -> Verdict {
    if !c.tree.is_valid() {
        return Verdict::discard();
    }
    let d = &c.tree;
    let clen = classic_len(d);
    let r = guard(|| -> Result<(bool, usize), String> {
        let mut a = Allocator::new();
        let node = build(&mut a, d).map_err(|e| format!("build: {e}"))?;
        let b = node_to_bytes_backrefs_limit(&a, node, LIMIT).map_err(|e| format!("serialize: {e}"))?;
        let mut i = Interner::new();
        let want = i.dag(d);
        // implementation decoders
        let mut a2 = Allocator::new();
        let back = node_from_bytes_backrefs(&mut a2, &b).map_err(|e| format!("node_from_bytes_backrefs(own output {}): {e}", hexs(&b)))?;
        if i.node(&a2, back) != want {
            return Err(format!("round trip changed the tree; bytes {}", hexs(&b)));
        }
        let mut a3 = Allocator::new();
        let back_old = node_from_bytes_backrefs_old(&mut a3, &b).map_err(|e| format!("legacy decoder rejects own output {}: {e}", hexs(&b)))?;
        if i.node(&a3, back_old) != want {
            return Err(format!("legacy decoder gives a different tree; bytes {}", hexs(&b)));
        }
        // independent decoder
        match decode_backrefs(&b) {
            Ok(dec) => {
                if dec.consumed != b.len() {
                    return Err(format!("reference decoder consumed {} of {} bytes: {}", dec.consumed, b.len(), hexs(&b)));
                }
                if i.dag(&dec.dag) != want {
                    return Err(format!("reference decoder (docs/compressed-serialization.md) gives a different tree for {}", hexs(&b)));
                }
            }
            Err(e) => return Err(format!("reference decoder rejects serializer output {}: {e:?}", hexs(&b))),
        }
        if !is_canonical_serialization(&b) {
            return Err(format!("output not canonical: {}", hexs(&b)));
        }
        if b.len() as u64 > clen {
            return Err(format!("back-reference serialization is {} bytes, classic is {clen}", b.len()));
        }
        // determinism: same allocator again
        let b2 = node_to_bytes_backrefs_limit(&a, node, LIMIT).map_err(|e| e.to_string())?;
        if b2 != b {
            return Err(format!("second run differs:\n {}\n {}", hexs(&b), hexs(&b2)));
        }
        // a value-equal copy with different node identity/order
        let copy = unshare(d, 20_000).map(|x| x.all_nat()).unwrap_or_else(|| d.all_nat());
        let mut a4 = Allocator::new();
        // perturb the allocator first so indices differ
        for k in 0..5u8 {
            let _ = a4.new_atom(&[0xee, k, 1, 2, 3]);
        }
        let n4 = build(&mut a4, &copy).map_err(|e| e.to_string())?;
        let b4 = node_to_bytes_backrefs_limit(&a4, n4, LIMIT).map_err(|e| e.to_string())?;
        if b4 != b {
            return Err(format!(
                "a value-equal copy of the tree serializes differently:\n orig {}\n copy {}",
                hexs(&b),
                hexs(&b4)
            ));
        }
        // re-serialize the decoded tree
        let b5 = node_to_bytes_backrefs_limit(&a2, back, LIMIT).map_err(|e| e.to_string())?;
        if b5 != b {
            return Err(format!("ser(decode(b)) != b:\n b   {}\n re  {}", hexs(&b), hexs(&b5)));
        }
        // count back-reference tokens by walking the token stream
        let mut pos = 0usize;
        let mut refs = 0usize;
        while pos < b.len() {
            let x = b[pos];
            if x == 0xff {
                pos += 1;
            } else if x == 0xfe {
                refs += 1;
                pos += 1;
            } else if x <= 0x80 {
                pos += 1;
            } else {
                let ones = x.leading_ones() as usize;
                let mut size = (x & (0xffu8 >> ones)) as usize;
                for k in 1..ones {
                    size = (size << 8) | b[pos + k] as usize;
                }
                pos += ones + size;
            }
        }
        Ok((refs > 0 && (b.len() as u64) < clen, refs))
    });
    match r {
        Ok(Ok((nt, refs))) => Verdict::pass(nt).label(match refs {
            0 => "no backrefs",
            1..=3 => "1-3 backrefs",
            _ => ">3 backrefs",
        }),
        Ok(Err(m)) => Verdict::fail(m),
        Err(p) => Verdict::fail(format!("panic: {p}")),
    }
}

/// lists of pairwise distinct items of one serialized size in which a few items recur at chosen distances, so that the
/// only possible saving (or loss) comes from back-references whose path length sits at every byte boundary
pub fn gen_periodic(t: &mut Tape) -> TreeCase {
    use crate::dag::Dag;
    let mut d = Dag::new();
    let n = 2 + t.below_usize(70);
    let alen = 1 + t.below_usize(7); // payload bytes of every atom
    let as_pair = t.chance(1, 5); // items are small pairs instead of atoms
    let mut items: Vec<u32> = Vec::new();
    for k in 0..n {
        let mut b = vec![0x80 | (k as u8 & 0x7f); alen];
        b[alen - 1] = (k >> 7) as u8 | 0x80;
        if alen >= 2 {
            b[alen - 2] = k as u8;
        }
        let a = d.atom(&b);
        items.push(if as_pair {
            let x = d.atom(&[k as u8 | 0x80, 0xaa]);
            d.pair(a, x)
        } else {
            a
        });
    }
    // recurrences: item at position p is replaced by the item at position p - dist
    for _ in 0..1 + t.below(3) {
        let dist = 1 + t.below_usize(50.min(n - 1));
        let p = dist + t.below_usize(n - dist);
        items[p] = items[p - dist];
        if t.flip() {
            // value-equal copy instead of the shared node
            if let crate::dag::N::A(b, _) = d.n[items[p] as usize].clone() {
                items[p] = d.atom(&b);
            }
        }
    }
    match t.below(3) {
        0 => {
            d.list(&items);
        }
        1 => {
            // left spine
            let mut cur = d.nil();
            for i in &items {
                cur = d.pair(cur, *i);
            }
        }
        _ => {
            let term = d.atom(&[0x42]);
            d.list_term(&items, term);
        }
    }
    TreeCase { tree: d }
}

pub fn run(r: &mut Runner) {
    r.rule = "part trees: generated DAGs with heavy reuse of sub-trees (shared nodes and value-equal copies, all atom representations); part periodic: lists / left spines / improper lists of up to 72 pairwise distinct equal-sized items (atoms of 1..7 bytes or small pairs) in which 1..3 items recur at distances 1..50 (shared node or value-equal copy), so that every path-length byte boundary against every referent size is hit; \
        non-trivial = output contains >= 1 back-reference and is strictly shorter than the classic form; distinct by tree. \
        Oracles: inverse (both implementation decoders), independent decoder written from docs/compressed-serialization.md, canonicity, length <= classic, determinism across runs/copies, ser(decode(b)) == b."
        .into();
    let cfg = TreeCfg { max_nodes: 80, max_atom: 60, reprs: true, dup_atoms: 50, deep: 3000 };
    let n = r.n(20_000, 600_000);
    r.run_part("trees", n, 500, |t: &mut Tape| TreeCase { tree: gen_tree(t, &cfg) }, test_tree);
    let n = r.n(40_000, 1_000_000);
    r.run_part("periodic", n, 40, gen_periodic, test_tree);
    r.require_label(">3 backrefs", 200);
}
