//! C20 — serde_2026 round-trips, is total, and is recognisable.

use crate::dag::{Dag, Interner, N, build};
use crate::engine::{Runner, Verdict, guard};
use crate::r#gen::bytes::mutate;
use crate::r#gen::trees::{TreeCfg, gen_tree};
use crate::model::refserde::{MAGIC, decode_2026, varint_encode};
use crate::tape::Tape;
use crate::util::hexs;
use clvmr::allocator::Allocator;
use clvmr::serde::{
    deserialize_2026, deserialize_2026_from_stream, node_from_bytes, node_from_bytes_backrefs,
    node_from_bytes_backrefs_old, parse_triples, serialize_2026, serialized_length_from_bytes,
    serialized_length_serde_2026, tree_hash_from_stream,
};
use serde::{Deserialize, Serialize};
use std::collections::HashMap;
use std::io::Cursor;

#[derive(Serialize, Deserialize, Clone, Debug)]
pub struct TreeCase {
    pub tree: Dag,
    pub level: u32,
}

fn max_atom(d: &Dag) -> usize {
    d.n.iter()
        .map(|n| if let N::A(b, _) = n { b.len() } else { 0 })
        .max()
        .unwrap_or(0)
}

pub fn test_tree(c: &TreeCase) -> Verdict {
    if !c.tree.is_valid() {
        return Verdict::discard();
    }
    let d = &c.tree;
    let r = guard(|| -> Result<bool, String> {
        let mut a = Allocator::new();
        let node = build(&mut a, d).map_err(|e| format!("build: {e}"))?;
        let blob = serialize_2026(&a, node, c.level).map_err(|e| format!("serialize_2026: {e}"))?;
        if blob.len() < 6 || blob[..6] != MAGIC {
            return Err(format!("output does not start with the magic prefix: {}", hexs(&blob)));
        }
        let mut i = Interner::new();
        let want = i.dag(d);
        let largest = max_atom(d);
        for max_len in [largest.max(1), 1 << 20, usize::MAX] {
            for strict in [true, false] {
                let mut a2 = Allocator::new();
                let back = deserialize_2026(&mut a2, &blob, max_len, strict)
                    .map_err(|e| format!("deserialize_2026(max_atom_len={max_len}, strict={strict}) of own output {}: {e}", hexs(&blob)))?;
                if i.node(&a2, back) != want {
                    return Err(format!("round trip (strict={strict}) changed the tree; blob {}", hexs(&blob)));
                }
                let mut junk = blob.clone();
                junk.extend_from_slice(&[0xff, 0x00, 0x7f, 0x80]);
                for (nm, buf) in [("exact", &blob), ("with trailing bytes", &junk)] {
                    match serialized_length_serde_2026(buf, max_len, strict) {
                        Ok(l) if l == blob.len() as u64 => {}
                        o => {
                            return Err(format!(
                                "serialized_length_serde_2026 ({nm}, max_atom_len={max_len}, strict={strict}) = {o:?}, blob is {} bytes",
                                blob.len()
                            ));
                        }
                    }
                }
            }
        }
        if largest >= 1 {
            let mut a2 = Allocator::new();
            if deserialize_2026(&mut a2, &blob, largest - 1, true).is_ok() {
                return Err(format!("max_atom_len={} accepted a blob whose largest atom has {largest} bytes", largest - 1));
            }
            if serialized_length_serde_2026(&blob, largest - 1, true).is_ok() {
                return Err(format!("length probe with max_atom_len={} accepted a blob whose largest atom has {largest} bytes", largest - 1));
            }
        }
        // independent decoder
        match decode_2026(&blob, u64::MAX >> 8, true) {
            Ok(dec) => {
                if dec.consumed != blob.len() {
                    return Err(format!("reference decoder consumed {} of {}", dec.consumed, blob.len()));
                }
                if i.dag(&dec.dag) != want {
                    return Err(format!("reference decoder (docs/serde-2026.md, strict) decodes a different tree from {}", hexs(&blob)));
                }
            }
            Err(e) => return Err(format!("reference decoder rejects serializer output {}: {e:?}", hexs(&blob))),
        }
        // recognisable: every other decoder rejects it
        reject_all(&blob)?;
        // non-trivial: two distinct atoms of equal length and a shared pair
        let mut by_len: HashMap<usize, std::collections::HashSet<&[u8]>> = HashMap::new();
        for n in &d.n {
            if let N::A(b, _) = n
                && !b.is_empty()
            {
                by_len.entry(b.len()).or_default().insert(b.as_slice());
            }
        }
        let eq_len = by_len.values().any(|s| s.len() >= 2);
        let ids = i.dag_all(d);
        let mut uses: HashMap<u32, u32> = HashMap::new();
        for n in &d.n {
            if let N::P(l, r) = n {
                for ch in [*l, *r] {
                    if matches!(d.n[ch as usize], N::P(..)) {
                        *uses.entry(ids[ch as usize]).or_default() += 1;
                    }
                }
            }
        }
        let shared = uses.values().any(|c| *c >= 2);
        Ok(eq_len && shared)
    });
    match r {
        Ok(Ok(nt)) => Verdict::pass(nt).label(format!("level{}", c.level.min(9))),
        Ok(Err(m)) => Verdict::fail(m),
        Err(p) => Verdict::fail(format!("panic: {p}")),
    }
}

fn reject_all(blob: &[u8]) -> Result<(), String> {
    let mut a = Allocator::new();
    if node_from_bytes(&mut a, blob).is_ok() {
        return Err(format!("node_from_bytes accepts a 2026 blob {}", hexs(blob)));
    }
    if node_from_bytes_backrefs(&mut a, blob).is_ok() {
        return Err(format!("node_from_bytes_backrefs accepts a 2026 blob {}", hexs(blob)));
    }
    if node_from_bytes_backrefs_old(&mut a, blob).is_ok() {
        return Err(format!("node_from_bytes_backrefs_old accepts a 2026 blob {}", hexs(blob)));
    }
    if serialized_length_from_bytes(blob).is_ok() {
        return Err(format!("serialized_length_from_bytes accepts a 2026 blob {}", hexs(blob)));
    }
    if tree_hash_from_stream(&mut Cursor::new(blob)).is_ok() {
        return Err(format!("tree_hash_from_stream accepts a 2026 blob {}", hexs(blob)));
    }
    if parse_triples(&mut Cursor::new(blob), true).is_ok() {
        return Err(format!("parse_triples accepts a 2026 blob {}", hexs(blob)));
    }
    Ok(())
}

#[derive(Serialize, Deserialize, Clone, Debug)]
pub struct BlobCase {
    #[serde(with = "crate::util::hexbytes")]
    pub b: Vec<u8>,
    pub max_atom_len: u32,
    pub strict: bool,
}

pub fn test_blob(c: &BlobCase) -> Verdict {
    let b = &c.b;
    let max_len = c.max_atom_len as usize;
    let dec = guard(|| {
        let mut a = Allocator::new();
        let mut cur = Cursor::new(b.as_slice());
        deserialize_2026_from_stream(&mut a, &mut cur, max_len, c.strict).map(|n| {
            let mut i = Interner::new();
            let id = i.node(&a, n);
            (i.to_dag(id), cur.position() as usize)
        })
    });
    let dec = match dec {
        Ok(x) => x,
        Err(p) => return Verdict::fail(format!("deserialize_2026 panicked on {}: {p}", hexs(b))),
    };
    let mut probes = Vec::new();
    for ml in [max_len, usize::MAX] {
        match guard(|| serialized_length_serde_2026(b, ml, c.strict)) {
            Ok(x) => probes.push(x),
            Err(p) => return Verdict::fail(format!("serialized_length_serde_2026(max_atom_len={ml}) panicked on {}: {p}", hexs(b))),
        }
    }
    let reference = decode_2026(b, max_len as u64, c.strict);
    if b.len() >= 6 && b[..6] == MAGIC {
        let r = guard(|| reject_all(b));
        match r {
            Ok(Ok(())) => {}
            Ok(Err(m)) => return Verdict::fail(m),
            Err(p) => return Verdict::fail(format!("classic/backref decoder panicked on {}: {p}", hexs(b))),
        }
    }
    match (&dec, &reference) {
        (Ok((tree, consumed)), Ok(rf)) => {
            let mut i = Interner::new();
            if i.dag(tree) != i.dag(&rf.dag) {
                return Verdict::fail(format!("decoded tree differs from the reference decoder on {}", hexs(b)));
            }
            if *consumed != rf.consumed {
                return Verdict::fail(format!("consumed {consumed}, reference consumed {}", rf.consumed));
            }
            for p in &probes {
                match p {
                    Ok(l) if *l == *consumed as u64 => {}
                    o => {
                        return Verdict::fail(format!(
                            "decode of {} (max_atom_len={max_len}, strict={}) succeeds consuming {consumed} bytes but the length probe gives {o:?}",
                            hexs(b),
                            c.strict
                        ));
                    }
                }
            }
            Verdict::pass(true).label("accepted")
        }
        (Err(_), Err(_)) => Verdict::pass(false).label("rejected"),
        (Ok(_), Err(e)) => Verdict::fail(format!(
            "implementation accepts {} (max_atom_len={max_len}, strict={}) but the format description rejects it: {e:?}",
            hexs(b),
            c.strict
        )),
        (Err(e), Ok(_)) => Verdict::fail(format!(
            "implementation rejects {} (max_atom_len={max_len}, strict={}) with '{e}' but it is a valid blob per docs/serde-2026.md",
            hexs(b),
            c.strict
        )),
    }
}

/// encode a varint, optionally widened (non-minimal) by `extra` bytes
fn vint(v: i64, extra: usize, out: &mut Vec<u8>) {
    let min = varint_encode(v).expect("in range");
    if extra == 0 || min.len() + extra > 8 {
        out.extend_from_slice(&min);
        return;
    }
    let n = min.len() + extra;
    let bits = 7 * n as u32;
    let u = (v as u64) & ((1u64 << bits) - 1);
    let mut enc = vec![0u8; n];
    for (k, o) in enc.iter_mut().enumerate() {
        *o = (u >> (8 * (n - 1 - k))) as u8;
    }
    enc[0] |= !(0xffu8 >> (n - 1));
    out.extend_from_slice(&enc);
}

/// an independent (and deliberately different) 2026 encoder with tampering knobs
pub fn gen_blob(t: &mut Tape) -> BlobCase {
    let cfg = TreeCfg { max_nodes: 24, max_atom: 40, reprs: false, dup_atoms: 40, deep: 0 };
    let d = gen_tree(t, &cfg);
    let strict = t.flip();
    let widen = !strict && t.chance(1, 3);
    let tamper = t.weighted(&[5, 1, 1, 1, 1, 1, 1, 1, 1]);
    let mut i = Interner::new();
    let ids = i.dag_all(&d);
    // unique non-nil atoms in first-seen order
    let mut atom_ids: Vec<u32> = Vec::new();
    for (k, n) in d.n.iter().enumerate() {
        if let N::A(b, _) = n
            && !b.is_empty()
            && !atom_ids.contains(&ids[k])
        {
            atom_ids.push(ids[k]);
        }
    }
    // random rotation of the table order
    if !atom_ids.is_empty() {
        let k = t.below_usize(atom_ids.len());
        atom_ids.rotate_left(k);
    }
    let bytes_of = |id: u32| -> Vec<u8> {
        match &i.nodes[id as usize] {
            crate::dag::INode::A(b) => b.clone(),
            _ => unreachable!(),
        }
    };
    // groups: consecutive equal lengths merged with probability 1/2
    let mut groups: Vec<Vec<u32>> = Vec::new();
    for id in &atom_ids {
        let len = bytes_of(*id).len();
        if let Some(last) = groups.last_mut()
            && bytes_of(last[0]).len() == len
            && t.flip()
        {
            last.push(*id);
            continue;
        }
        groups.push(vec![*id]);
    }
    let mut index_of: HashMap<u32, i64> = HashMap::new();
    let mut k = 0i64;
    for g in &groups {
        for id in g {
            index_of.insert(*id, k);
            k += 1;
        }
    }
    let mut out = MAGIC.to_vec();
    let w = |t: &mut Tape| if widen { t.below(3) as usize } else { 0 };
    let gcount = groups.len() as i64 + if tamper == 1 { 1 } else { 0 };
    vint(gcount, w(t), &mut out);
    for g in &groups {
        let len = bytes_of(g[0]).len() as i64;
        if g.len() == 1 && t.chance(3, 4) {
            vint(if tamper == 2 { 0 } else { len }, w(t), &mut out);
        } else {
            vint(-len, w(t), &mut out);
            vint(if tamper == 3 { 0 } else { g.len() as i64 }, w(t), &mut out);
        }
        for id in g {
            out.extend(bytes_of(*id));
        }
    }
    // instructions
    let mut inst: Vec<i64> = Vec::new();
    let mut pair_index: HashMap<u32, i64> = HashMap::new();
    enum Op {
        Visit(u32),
        Cons(u32, i64),
    }
    let mut st = vec![Op::Visit(d.root())];
    while let Some(op) = st.pop() {
        match op {
            Op::Visit(n) => match &d.n[n as usize] {
                N::A(b, _) => {
                    if b.is_empty() {
                        inst.push(0);
                    } else {
                        inst.push(index_of[&ids[n as usize]] + 2);
                    }
                }
                N::P(l, r) => {
                    if let Some(pi) = pair_index.get(&ids[n as usize]) {
                        inst.push(-(*pi) - 2);
                    } else if t.flip() {
                        st.push(Op::Cons(n, 1));
                        st.push(Op::Visit(*r));
                        st.push(Op::Visit(*l));
                    } else {
                        st.push(Op::Cons(n, -1));
                        st.push(Op::Visit(*l));
                        st.push(Op::Visit(*r));
                    }
                }
            },
            Op::Cons(n, code) => {
                inst.push(code);
                let next = pair_index.len() as i64;
                pair_index.entry(ids[n as usize]).or_insert(next);
                // a duplicate construction still consumes a pair index
                if pair_index[&ids[n as usize]] != next {
                    pair_index.insert(u32::MAX - next as u32, next);
                }
            }
        }
    }
    match tamper {
        4 if !inst.is_empty() => {
            let k = t.below_usize(inst.len());
            inst[k] += if t.flip() { 1 } else { -1 };
        }
        5 => inst.push(if t.flip() { 0 } else { 1 }),
        6 if !inst.is_empty() => {
            inst.pop();
        }
        _ => {}
    }
    let icount = inst.len() as i64 + if tamper == 7 { 1 } else { 0 };
    vint(icount, w(t), &mut out);
    for x in inst {
        vint(x, w(t), &mut out);
    }
    if tamper == 8 {
        mutate(t, &mut out);
    }
    if t.chance(1, 6) {
        out.extend(t.bytes(3));
    }
    let max_atom_len = match t.below(4) {
        0 => 1 << 20,
        1 => 40,
        2 => t.below(41),
        _ => 8,
    };
    BlobCase { b: out, max_atom_len, strict }
}

pub fn run(r: &mut Runner) {
    r.rule = "part trees: generated DAGs x levels {0,1,7,u32::MAX}; non-trivial = tree has two distinct atoms of equal length and a pair used more than once. part groups: lists / balanced trees of up to 1800 pairwise distinct atoms in 1..3 equal-length groups whose byte sizes sit around 256, 1024, 2048, 4096 and 9000 bytes (same oracle as trees). \
        part blobs: magic||body produced by an independent encoder that chooses table order, grouping, cons direction (1/-1), pair references and non-minimal varints, with structural tampering (counts, zero lengths, indices, missing/extra instructions) and byte mutation; \
        non-trivial = accepted blob (these differ from the serializer's own output by construction). part raw: mutated serializer output and random bodies."
        .into();
    r.assumptions = vec![
        "decoders are driven with max_atom_len <= 1 MiB on hostile input (documented caller contract); the length probe is also called with usize::MAX".into(),
    ];
    let cfg = TreeCfg { max_nodes: 60, max_atom: 70, reprs: true, dup_atoms: 40, deep: 2000 };
    let n = r.n(20_000, 500_000);
    r.run_part(
        "trees",
        n,
        400,
        |t: &mut Tape| {
            let level = *t.pick(&[0u32, 1, 7, u32::MAX]);
            TreeCase { tree: gen_tree(t, &cfg), level }
        },
        test_tree,
    );
    // large groups of distinct equal-length atoms (atom-table groups whose byte size crosses every buffer size a decoder
    // might use: hundreds of atoms, group sizes around multiples of 256 / 1024 / 4096 bytes), several groups per tree
    let n = r.n(6_000, 120_000);
    r.run_part(
        "groups",
        n,
        40,
        |t: &mut Tape| {
            use crate::dag::Dag;
            let mut d = Dag::new();
            let mut items = Vec::new();
            let mut serial = 0u32;
            for _ in 0..1 + t.below(3) {
                let len = match t.below(6) {
                    0 => 1 + t.below_usize(4),
                    1 => *t.pick(&[31usize, 32, 33, 48, 96]),
                    _ => 1 + t.below_usize(130),
                };
                let target = *t.pick(&[200usize, 256, 1000, 1024, 1030, 2048, 4096, 5000, 9000]);
                let count = match t.below(4) {
                    0 => 1 + t.below_usize(12),
                    1 => (target / len).max(1) + t.below_usize(3),
                    2 => (target / len).max(2) - 1,
                    _ => 1 + t.below_usize(400),
                }
                .min(600);
                for _ in 0..count {
                    serial += 1;
                    let mut b = vec![0x55u8; len];
                    for (k, x) in serial.to_be_bytes().iter().enumerate() {
                        if k < len {
                            b[len - 1 - k] = x ^ (0xa0 + k as u8);
                        }
                    }
                    items.push(d.atom(&b));
                }
            }
            if t.flip() {
                d.list(&items);
            } else {
                // balanced-ish tree instead of a list
                while items.len() > 1 {
                    let mut next = Vec::new();
                    for c in items.chunks(2) {
                        next.push(if c.len() == 2 { d.pair(c[0], c[1]) } else { c[0] });
                    }
                    items = next;
                }
            }
            let level = *t.pick(&[0u32, 1, u32::MAX]);
            TreeCase { tree: d, level }
        },
        test_tree,
    );
    let n = r.n(100_000, 3_000_000);
    r.run_part("blobs", n, 300, gen_blob, test_blob);
    let n = r.n(30_000, 1_000_000);
    r.run_part(
        "raw",
        n,
        200,
        |t: &mut Tape| {
            let mut b = MAGIC.to_vec();
            match t.below(3) {
                0 => {
                    let k = t.below(20) as usize;
                    b.extend(t.bytes(k.min(12)));
                    b.extend((0..k.saturating_sub(12)).map(|_| (t.word() >> 24) as u8));
                }
                _ => {
                    let d = gen_tree(t, &TreeCfg { max_nodes: 16, max_atom: 20, ..Default::default() });
                    let mut a = Allocator::new();
                    if let Ok(n) = build(&mut a, &d)
                        && let Ok(blob) = serialize_2026(&a, n, 0)
                    {
                        b = blob;
                    }
                    mutate(t, &mut b);
                }
            }
            BlobCase { b, max_atom_len: 1 << 20, strict: t.flip() }
        },
        test_blob,
    );
    r.require_label("accepted", 5000);
}
