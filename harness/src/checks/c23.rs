//! C23 — native sha256tree never costs more than its ChiaLisp equivalent.

use crate::dag::{Dag, Interner, build};
use crate::engine::{Runner, Verdict, guard};
use crate::r#gen::trees::{TreeCfg, gen_tree};
use crate::model::refhash::tree_hash;
use crate::model::refserde::decode_classic;
use crate::tape::Tape;
use crate::util::*;
use clvmr::allocator::Allocator;
use clvmr::chia_dialect::ChiaDialect;
use clvmr::run_program::run_program;
use serde::{Deserialize, Serialize};
use std::sync::OnceLock;

#[derive(Serialize, Deserialize, Clone, Debug)]
pub struct Case {
    pub tree: Dag,
    pub new_model: bool,
}

/// the standard recursive ChiaLisp sha256tree program, read from the repository
fn chialisp_prog() -> &'static Option<Dag> {
    static P: OnceLock<Option<Dag>> = OnceLock::new();
    P.get_or_init(|| {
        let src = std::fs::read_to_string("/repo/tools/src/bin/sha256tree-benching.rs").ok()?;
        let i = src.find("let shaprogbytes = hex::decode(")?;
        let rest = &src[i..];
        let q1 = rest.find('"')?;
        let q2 = rest[q1 + 1..].find('"')?;
        let hexs = &rest[q1 + 1..q1 + 1 + q2];
        let bytes = hex::decode(hexs).ok()?;
        decode_classic(&bytes).ok().map(|d| d.dag)
    })
}

pub fn test_case(c: &Case) -> Verdict {
    if !c.tree.is_valid() {
        return Verdict::discard();
    }
    let Some(prog) = chialisp_prog().as_ref() else {
        return Verdict::discard();
    };
    let mut i = Interner::new();
    let id = i.dag(&c.tree);
    if i.tree_size(id) > 40_000 {
        return Verdict::discard();
    }
    let want = tree_hash(&c.tree);
    let bits = F_SHA256_TREE | if c.new_model { F_NEW_COST } else { 0 };
    let r = guard(|| -> Result<(u64, u64), String> {
        // native: (sha256tree 1)
        let mut a = Allocator::new();
        let env = build(&mut a, &c.tree).map_err(|e| e.to_string())?;
        let mut pd = Dag::new();
        let o = pd.atom(&[63]);
        let one = pd.atom(&[1]);
        let l = pd.list(&[one]);
        pd.pair(o, l);
        let p = build(&mut a, &pd).map_err(|e| e.to_string())?;
        let d = ChiaDialect::new(flags(bits));
        let native = run_program(&mut a, &d, p, env, 0).map_err(|e| format!("native sha256tree failed: {e}"))?;
        if a.atom(native.1).as_ref() != want {
            return Err(format!("native sha256tree returned {}", hex::encode(a.atom(native.1).as_ref())));
        }
        // ChiaLisp
        let mut a2 = Allocator::new();
        let env2 = build(&mut a2, &c.tree).map_err(|e| e.to_string())?;
        let p2 = build(&mut a2, prog).map_err(|e| e.to_string())?;
        let lisp = run_program(&mut a2, &d, p2, env2, 0).map_err(|e| format!("ChiaLisp sha256tree failed: {e}"))?;
        if a2.atom(lisp.1).as_ref() != want {
            return Err(format!("ChiaLisp sha256tree returned {}", hex::encode(a2.atom(lisp.1).as_ref())));
        }
        Ok((native.0, lisp.0))
    });
    match r {
        Ok(Ok((native, lisp))) => {
            if native >= lisp {
                return Verdict::fail(format!(
                    "native sha256tree costs {native}, the ChiaLisp program costs {lisp} (flags {}) on tree {}",
                    flag_names(bits),
                    crate::dag::dag_hex(&c.tree, 400)
                ));
            }
            let big_atom = c.tree.n.iter().any(|n| matches!(n, crate::dag::N::A(b, _) if b.len() >= 1024));
            Verdict::pass(c.tree.pair_count() > 0 || big_atom).label(if c.new_model { "new model" } else { "old model" }).label(format!("margin<{}", if lisp - native < 500 { "500" } else { "inf" }))
        }
        Ok(Err(m)) => Verdict::fail(format!("{m}\n expected {}\n tree {}", hex::encode(want), crate::dag::dag_hex(&c.tree, 400))),
        Err(p) => Verdict::fail(format!("panic: {p}")),
    }
}

pub fn run(r: &mut Runner) {
    r.rule = "trees from one huge atom (up to 1 MiB) to thousands of tiny atoms (pool/list/spine/doubling shapes, expanded size <= 40000 nodes) x both cost models with ENABLE_SHA256_TREE. \
        Oracle: cost((sha256tree 1) on X) < cost(standard recursive ChiaLisp program on X) (program read from tools/src/bin/sha256tree-benching.rs), and both results equal the independent recursive tree hash. \
        Non-trivial = tree has a pair or an atom >= 1 KiB; distinct by case."
        .into();
    if chialisp_prog().is_none() {
        r.inconclusive.push("cannot read the ChiaLisp sha256tree program from /repo/tools/src/bin/sha256tree-benching.rs".into());
        return;
    }
    let n = r.n(20_000, 400_000);
    r.run_part(
        "trees",
        n,
        400,
        |t: &mut Tape| {
            let tree = match t.below(8) {
                0 => {
                    // one huge atom, maybe wrapped
                    let n = match t.below(3) {
                        0 => t.below(2000) as usize,
                        1 => 1024 + t.below(100_000) as usize,
                        _ => (1 << 20) - t.below(3) as usize,
                    };
                    let mut d = Dag::new();
                    let b = t.bytes(n.max(13));
                    let a = d.atom(&b[..n.min(b.len())]);
                    if t.flip() {
                        let nil = d.nil();
                        d.pair(a, nil);
                    }
                    d
                }
                1 => gen_tree(t, &TreeCfg { max_nodes: 400, max_atom: 4, reprs: true, dup_atoms: 30, deep: 3000 }),
                _ => gen_tree(t, &TreeCfg { max_nodes: 80, max_atom: 200, reprs: true, dup_atoms: 30, deep: 2000 }),
            };
            Case { tree, new_model: t.flip() }
        },
        test_case,
    );
}
