//! Line-protocol server: runs programs / operators / serde functions in this
//! build of the harness and reports comparable outcome records. Used to compare
//! separately built variants (C05) and by the Python checks (C22 leg, C26-C28).

use crate::checks::c25::op_table;
use crate::dag::{Dag, Interner, build};
use crate::engine::guard;
use crate::model::refhash::tree_hash;
use crate::util::{err_kind, flags};
use clvmr::allocator::Allocator;
use clvmr::chia_dialect::ChiaDialect;
use serde::{Deserialize, Serialize};
use std::io::{BufRead, BufReader, Write};
use std::process::{Child, ChildStdin, ChildStdout, Command, Stdio};

#[derive(Serialize, Deserialize, Clone, Debug)]
#[serde(tag = "kind")]
pub enum Req {
    #[serde(rename = "prog")]
    Prog { prog: Dag, env: Dag, flags: u32, budget: u64 },
    #[serde(rename = "op")]
    Op { op: String, args: Dag, flags: u32, max_cost: u64 },
    /// serialized program/env bytes (hex), the way the Python API receives them
    #[serde(rename = "run_bytes")]
    RunBytes { program: String, env: String, flags: u32, max_cost: u64 },
    #[serde(rename = "serde")]
    Serde {
        func: String,
        data: String,
        #[serde(default)]
        max_atom_len: Option<u64>,
        #[serde(default)]
        strict: Option<bool>,
        #[serde(default)]
        level: Option<u32>,
    },
    /// decode a choice tape into a program/environment (classic bytes, hex)
    #[serde(rename = "gen")]
    Gen { tape: Vec<u32>, what: String },
    /// canonical integer encoding of a decimal string
    #[serde(rename = "int_to_bytes")]
    IntToBytes { value: String },
    /// value (decimal) of an atom given as hex
    #[serde(rename = "int_from_bytes")]
    IntFromBytes { data: String },
    #[serde(rename = "features")]
    Features,
}

#[derive(Serialize, Deserialize, Clone, Debug, PartialEq, Eq, Default)]
pub struct Resp {
    /// "Ok" or the error variant name or "PANIC"
    pub kind: String,
    pub cost: u64,
    pub msg: String,
    /// classic serialization of the result (hex), when requested and small enough
    #[serde(default)]
    pub value_hex: String,
    /// independent sha256 tree hash of the result
    pub value_hash: String,
    /// (atom_count, pair_count, heap_size) afterwards
    pub counts: (u64, u64, u64),
    /// error node serialized (hex), for errors that carry a node
    #[serde(default)]
    pub err_node: String,
    /// diag build: number of pre-eval callback invocations
    #[serde(default)]
    pub pre_eval_calls: u64,
}

fn finish(a: &Allocator, r: Result<clvmr::reduction::Response, String>, want_hex: bool) -> Resp {
    let counts = (a.atom_count() as u64, a.pair_count() as u64, a.heap_size() as u64);
    match r {
        Err(p) => Resp { kind: "PANIC".into(), msg: p, counts, ..Default::default() },
        Ok(Err(e)) => {
            let node = e.node_ptr();
            let mut i = Interner::new();
            let err_node = if want_hex {
                let id = i.node(a, node);
                i.to_hex(id, 1 << 20)
            } else {
                String::new()
            };
            Resp { kind: err_kind(&e), msg: e.to_string(), counts, err_node, ..Default::default() }
        }
        Ok(Ok(red)) => {
            let mut i = Interner::new();
            let id = i.node(a, red.1);
            let d = i.to_dag(id);
            let h = tree_hash(&d);
            Resp {
                kind: "Ok".into(),
                cost: red.0,
                value_hash: hex::encode(h),
                value_hex: if want_hex { i.to_hex(id, 1 << 22) } else { String::new() },
                counts,
                ..Default::default()
            }
        }
    }
}

#[cfg(feature = "diag")]
fn run_prog_impl(a: &mut Allocator, d: &ChiaDialect, p: clvmr::NodePtr, e: clvmr::NodePtr, budget: u64) -> (Result<clvmr::reduction::Response, String>, u64) {
    use std::cell::Cell;
    use std::rc::Rc;
    let calls = Rc::new(Cell::new(0u64));
    let c2 = calls.clone();
    // observe-only callback (with an observe-only post-eval)
    let pre: clvmr::run_program::PreEval = Box::new(move |_a, _prog, _env| {
        c2.set(c2.get() + 1);
        let c3 = c2.clone();
        Ok(Some(Box::new(move |_a: &mut Allocator, _r: Option<clvmr::NodePtr>| {
            c3.set(c3.get() + 1);
        })))
    });
    let r = guard(|| clvmr::run_program::run_program_with_pre_eval(a, d, p, e, budget, Some(pre)));
    (r, calls.get())
}

#[cfg(not(feature = "diag"))]
fn run_prog_impl(a: &mut Allocator, d: &ChiaDialect, p: clvmr::NodePtr, e: clvmr::NodePtr, budget: u64) -> (Result<clvmr::reduction::Response, String>, u64) {
    (guard(|| clvmr::run_program::run_program(a, d, p, e, budget)), 0)
}

pub fn handle(req: &Req) -> Resp {
    match req {
        Req::Prog { prog, env, flags: f, budget } => {
            let mut a = Allocator::new();
            let (Ok(p), Ok(e)) = (build(&mut a, prog), build(&mut a, env)) else {
                return Resp { kind: "BUILD".into(), ..Default::default() };
            };
            let d = ChiaDialect::new(flags(*f));
            let (r, calls) = run_prog_impl(&mut a, &d, p, e, *budget);
            let mut resp = finish(&a, r, false);
            resp.pre_eval_calls = calls;
            resp
        }
        Req::Op { op, args, flags: f, max_cost } => {
            let Some((_, fun)) = op_table().into_iter().find(|(n, _)| n == op) else {
                return Resp { kind: "NOOP".into(), ..Default::default() };
            };
            let mut a = Allocator::new();
            let Ok(ar) = build(&mut a, args) else {
                return Resp { kind: "BUILD".into(), ..Default::default() };
            };
            let r = guard(|| fun(&mut a, ar, *max_cost, flags(*f)));
            finish(&a, r, false)
        }
        Req::RunBytes { program, env, flags: f, max_cost } => {
            // mirrors wheel/src/api.rs::run_serialized_chia_program
            let fl = clvmr::chia_dialect::ClvmFlags::from_bits_truncate(*f);
            let mut a = if fl.contains(clvmr::chia_dialect::ClvmFlags::LIMIT_HEAP) { Allocator::new_limited(500000000) } else { Allocator::new() };
            let (Ok(pb), Ok(eb)) = (hex::decode(program), hex::decode(env)) else {
                return Resp { kind: "BADHEX".into(), ..Default::default() };
            };
            let r = guard(|| {
                let p = clvmr::serde::node_from_bytes(&mut a, &pb)?;
                let e = clvmr::serde::node_from_bytes(&mut a, &eb)?;
                let d = ChiaDialect::new(fl);
                clvmr::run_program::run_program(&mut a, &d, p, e, *max_cost)
            });
            finish(&a, r, true)
        }
        Req::Serde { func, data, max_atom_len, strict, level } => {
            serde_func(func, data, max_atom_len.unwrap_or(1 << 20) as usize, strict.unwrap_or(true), level.unwrap_or(0))
        }
        Req::Gen { tape, what } => {
            use crate::r#gen::programs::{ProgCfg, gen_program};
            use crate::model::refserde::encode_classic;
            let mut t = crate::tape::Tape::new(tape);
            match what.as_str() {
                "program" => {
                    let cfg = ProgCfg { mutate_pct: 20, raw_pct: 5, reprs: false, ..Default::default() };
                    let p = gen_program(&mut t, &cfg);
                    let (Some(pb), Some(eb)) = (encode_classic(&p.prog, 1 << 20), encode_classic(&p.env, 1 << 20)) else {
                        return Resp { kind: "TOOBIG".into(), ..Default::default() };
                    };
                    Resp { kind: "Ok".into(), value_hex: hex::encode(pb), err_node: hex::encode(eb), ..Default::default() }
                }
                "program_sensitive" => {
                    // programs rich in constructs that the restriction flags look at (operand sizes around the LIMITS
                    // thresholds, nested guards, padded softfork arguments, unknown opcodes)
                    let fl = crate::r#gen::programs::gen_flags(&mut t);
                    let Some(p) = crate::checks::c07::gen_sensitive(&mut t, fl) else {
                        return Resp { kind: "TOOBIG".into(), ..Default::default() };
                    };
                    let (Some(pb), Some(eb)) = (encode_classic(&p.prog, 1 << 20), encode_classic(&p.env, 1 << 20)) else {
                        return Resp { kind: "TOOBIG".into(), ..Default::default() };
                    };
                    Resp { kind: "Ok".into(), value_hex: hex::encode(pb), err_node: hex::encode(eb), cost: fl as u64, ..Default::default() }
                }
                "bytes" => {
                    let b = crate::r#gen::bytes::gen_classic_bytes(&mut t);
                    Resp { kind: "Ok".into(), value_hex: hex::encode(b), ..Default::default() }
                }
                "bytes_backrefs" => {
                    let c = crate::checks::c18::gen_bytes(&mut t);
                    Resp { kind: "Ok".into(), value_hex: hex::encode(c.b), ..Default::default() }
                }
                "bytes_2026" => {
                    let c = crate::checks::c20::gen_blob(&mut t);
                    Resp { kind: "Ok".into(), value_hex: hex::encode(c.b), cost: c.max_atom_len as u64, msg: c.strict.to_string(), ..Default::default() }
                }
                "tree" => {
                    use crate::r#gen::trees::{TreeCfg, gen_tree};
                    let d = gen_tree(&mut t, &TreeCfg { max_nodes: 40, max_atom: 70, ..Default::default() });
                    match encode_classic(&d, 1 << 22) {
                        Some(b) => Resp { kind: "Ok".into(), value_hex: hex::encode(b), ..Default::default() },
                        None => Resp { kind: "TOOBIG".into(), ..Default::default() },
                    }
                }
                _ => Resp { kind: "BADREQ".into(), ..Default::default() },
            }
        }
        Req::IntToBytes { value } => {
            use num_traits::Num;
            let Ok(n) = clvmr::number::Number::from_str_radix(value, 10) else {
                return Resp { kind: "BADREQ".into(), ..Default::default() };
            };
            let mut a = Allocator::new();
            match a.new_number(n) {
                Ok(p) => Resp { kind: "Ok".into(), value_hex: hex::encode(a.atom(p).as_ref()), ..Default::default() },
                Err(e) => Resp { kind: err_kind(&e), msg: e.to_string(), ..Default::default() },
            }
        }
        Req::IntFromBytes { data } => {
            let Ok(b) = hex::decode(data) else {
                return Resp { kind: "BADHEX".into(), ..Default::default() };
            };
            let mut a = Allocator::new();
            match a.new_atom(&b) {
                Ok(p) => Resp { kind: "Ok".into(), msg: a.number(p).to_string(), ..Default::default() },
                Err(e) => Resp { kind: err_kind(&e), msg: e.to_string(), ..Default::default() },
            }
        }
        Req::Features => Resp {
            kind: "Ok".into(),
            msg: format!("nofast={} diag={}", cfg!(feature = "nofast"), cfg!(feature = "diag")),
            ..Default::default()
        },
    }
}

/// serialization functions for the Python differential checks; `data` is hex
fn serde_func(func: &str, data: &str, max_atom_len: usize, strict: bool, level: u32) -> Resp {
    use clvmr::serde::*;
    let Ok(b) = hex::decode(data) else {
        return Resp { kind: "BADHEX".into(), ..Default::default() };
    };
    let r = guard(|| -> Result<String, clvmr::error::EvalErr> {
        let mut a = Allocator::new();
        match func {
            // decode with the named decoder, answer the classic serialization
            "deser_legacy" => {
                let n = node_from_bytes(&mut a, &b)?;
                Ok(hex::encode(node_to_bytes_limit(&a, n, 1 << 30)?))
            }
            "deser_backrefs" => {
                let n = node_from_bytes_backrefs(&mut a, &b)?;
                Ok(hex::encode(node_to_bytes_limit(&a, n, 1 << 30)?))
            }
            "deser_2026" => {
                let n = deserialize_2026(&mut a, &b, max_atom_len, strict)?;
                Ok(hex::encode(node_to_bytes_limit(&a, n, 1 << 30)?))
            }
            // the documented dispatch rule of the wheel's deser_auto: magic prefix => serde_2026, else back-references
            "deser_auto" => {
                let magic: [u8; 6] = [0xfd, 0xff, 0x32, 0x30, 0x32, 0x36];
                let n = if b.starts_with(&magic) { deserialize_2026(&mut a, &b, max_atom_len, strict)? } else { node_from_bytes_backrefs(&mut a, &b)? };
                Ok(hex::encode(node_to_bytes_limit(&a, n, 1 << 30)?))
            }
            // parse_triples: "s,e,x;s,e,x;...|hash hash ..." (a = atom, p = pair)
            "triples" | "triples_nohash" => {
                let mut cur = std::io::Cursor::new(&b[..]);
                let (t, h) = parse_triples(&mut cur, func == "triples")?;
                let ts: Vec<String> = t
                    .iter()
                    .map(|x| match x {
                        ParsedTriple::Atom { start, end, atom_offset } => format!("{start},{end},{atom_offset}"),
                        ParsedTriple::Pair { start, end, right_index } => format!("{start},{end},{right_index}"),
                    })
                    .collect();
                let hs: Vec<String> = h.map(|v| v.iter().map(hex::encode).collect()).unwrap_or_default();
                Ok(format!("{}|{}", ts.join(";"), hs.join(" ")))
            }
            // decode classic, answer the named serialization
            "ser_backrefs" => {
                let n = node_from_bytes(&mut a, &b)?;
                Ok(hex::encode(node_to_bytes_backrefs_limit(&a, n, 1 << 30)?))
            }
            "ser_2026" => {
                let n = node_from_bytes(&mut a, &b)?;
                Ok(hex::encode(serialize_2026(&a, n, level)?))
            }
            "ser_legacy" => {
                let n = node_from_bytes(&mut a, &b)?;
                Ok(hex::encode(node_to_bytes(&a, n)?))
            }
            "serialized_length" => Ok(serialized_length_from_bytes(&b)?.to_string()),
            "serialized_length_trusted" => Ok(serialized_length_from_bytes_trusted(&b)?.to_string()),
            "tree_hash" => {
                let n = node_from_bytes(&mut a, &b)?;
                let mut i = Interner::new();
                let id = i.node(&a, n);
                Ok(hex::encode(tree_hash(&i.to_dag(id))))
            }
            _ => Ok("?".into()),
        }
    });
    match r {
        Err(p) => Resp { kind: "PANIC".into(), msg: p, ..Default::default() },
        Ok(Err(e)) => Resp { kind: err_kind(&e), msg: e.to_string(), ..Default::default() },
        Ok(Ok(s)) => Resp { kind: "Ok".into(), value_hex: s, ..Default::default() },
    }
}

pub fn serve() {
    let stdin = std::io::stdin();
    let mut out = std::io::stdout();
    for line in stdin.lock().lines() {
        let Ok(line) = line else { break };
        if line.trim().is_empty() {
            continue;
        }
        let resp = match serde_json::from_str::<Req>(&line) {
            Ok(req) => handle(&req),
            Err(e) => Resp { kind: "BADREQ".into(), msg: e.to_string(), ..Default::default() },
        };
        let _ = writeln!(out, "{}", serde_json::to_string(&resp).unwrap());
        let _ = out.flush();
    }
}

pub struct Client {
    child: Child,
    stdin: ChildStdin,
    stdout: BufReader<ChildStdout>,
}

impl Client {
    pub fn spawn(path: &str) -> std::io::Result<Client> {
        let mut child = Command::new(path).arg("serve").stdin(Stdio::piped()).stdout(Stdio::piped()).stderr(Stdio::null()).spawn()?;
        let stdin = child.stdin.take().unwrap();
        let stdout = BufReader::new(child.stdout.take().unwrap());
        Ok(Client { child, stdin, stdout })
    }
    pub fn call(&mut self, req: &Req) -> Option<Resp> {
        let s = serde_json::to_string(req).ok()?;
        writeln!(self.stdin, "{s}").ok()?;
        self.stdin.flush().ok()?;
        let mut line = String::new();
        self.stdout.read_line(&mut line).ok()?;
        serde_json::from_str(&line).ok()
    }
}

impl Drop for Client {
    fn drop(&mut self) {
        let _ = self.child.kill();
        let _ = self.child.wait();
    }
}
