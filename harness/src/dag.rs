//! Trees as DAG node lists (sharing is explicit), builders into an `Allocator`
//! with a chosen internal representation per atom, and a hash-consing interner
//! used to compare trees by value in O(nodes) regardless of sharing.

use clvmr::allocator::{Allocator, NodePtr, SExp};
use clvmr::error::EvalErr;
use serde::{Deserialize, Deserializer, Serialize, Serializer};
use std::collections::HashMap;

#[derive(Clone, Copy, Debug, PartialEq, Eq, Hash)]
pub enum Repr {
    /// `new_atom` (inline small int when canonical and < 2^26, else heap)
    Nat,
    /// forced heap buffer: `new_concat(len, [nil, x])`
    Heap,
    /// `new_substr` view into a longer heap atom
    View,
}

#[derive(Clone, Debug, PartialEq, Eq, Hash)]
pub enum N {
    A(Vec<u8>, Repr),
    P(u32, u32),
}

impl Serialize for N {
    fn serialize<S: Serializer>(&self, s: S) -> Result<S::Ok, S::Error> {
        let st = match self {
            N::A(b, Repr::Nat) => format!("a:{}", hex::encode(b)),
            N::A(b, Repr::Heap) => format!("h:{}", hex::encode(b)),
            N::A(b, Repr::View) => format!("v:{}", hex::encode(b)),
            N::P(l, r) => format!("p:{l},{r}"),
        };
        s.serialize_str(&st)
    }
}

impl<'de> Deserialize<'de> for N {
    fn deserialize<D: Deserializer<'de>>(d: D) -> Result<Self, D::Error> {
        let s = String::deserialize(d)?;
        let err = |m: &str| serde::de::Error::custom(format!("bad node '{s}': {m}"));
        let (k, rest) = s.split_at(2.min(s.len()));
        match k {
            "a:" | "h:" | "v:" => {
                let b = hex::decode(rest).map_err(|_| err("hex"))?;
                let r = match k {
                    "a:" => Repr::Nat,
                    "h:" => Repr::Heap,
                    _ => Repr::View,
                };
                Ok(N::A(b, r))
            }
            "p:" => {
                let (l, r) = rest.split_once(',').ok_or_else(|| err("pair"))?;
                Ok(N::P(
                    l.parse().map_err(|_| err("idx"))?,
                    r.parse().map_err(|_| err("idx"))?,
                ))
            }
            _ => Err(err("kind")),
        }
    }
}

/// A DAG; the root is the last node. Children always precede parents.
#[derive(Clone, Debug, PartialEq, Eq, Serialize, Deserialize, Default)]
pub struct Dag {
    pub n: Vec<N>,
}

impl Dag {
    pub fn new() -> Self {
        Dag { n: Vec::new() }
    }
    pub fn atom(&mut self, b: &[u8]) -> u32 {
        self.n.push(N::A(b.to_vec(), Repr::Nat));
        (self.n.len() - 1) as u32
    }
    pub fn atom_r(&mut self, b: &[u8], r: Repr) -> u32 {
        self.n.push(N::A(b.to_vec(), r));
        (self.n.len() - 1) as u32
    }
    pub fn nil(&mut self) -> u32 {
        self.atom(&[])
    }
    pub fn pair(&mut self, l: u32, r: u32) -> u32 {
        debug_assert!((l as usize) < self.n.len() && (r as usize) < self.n.len());
        self.n.push(N::P(l, r));
        (self.n.len() - 1) as u32
    }
    /// proper list
    pub fn list(&mut self, items: &[u32]) -> u32 {
        let mut t = self.nil();
        for i in items.iter().rev() {
            t = self.pair(*i, t);
        }
        t
    }
    pub fn list_term(&mut self, items: &[u32], term: u32) -> u32 {
        let mut t = term;
        for i in items.iter().rev() {
            t = self.pair(*i, t);
        }
        t
    }
    pub fn root(&self) -> u32 {
        (self.n.len() - 1) as u32
    }
    pub fn is_valid(&self) -> bool {
        !self.n.is_empty()
            && self.n.iter().enumerate().all(|(i, n)| match n {
                N::A(..) => true,
                N::P(l, r) => (*l as usize) < i && (*r as usize) < i,
            })
    }
    /// append another dag; returns the index of its root in self
    pub fn append(&mut self, o: &Dag) -> u32 {
        let base = self.n.len() as u32;
        for n in &o.n {
            self.n.push(match n {
                N::A(b, r) => N::A(b.clone(), *r),
                N::P(l, r) => N::P(l + base, r + base),
            });
        }
        self.root()
    }
    pub fn pair_count(&self) -> usize {
        self.n.iter().filter(|n| matches!(n, N::P(..))).count()
    }
    pub fn atom_count(&self) -> usize {
        self.n.len() - self.pair_count()
    }
    /// number of nodes reachable from the root (as a DAG)
    pub fn reachable(&self) -> Vec<bool> {
        let mut seen = vec![false; self.n.len()];
        if self.n.is_empty() {
            return seen;
        }
        let mut st = vec![self.root()];
        while let Some(i) = st.pop() {
            if seen[i as usize] {
                continue;
            }
            seen[i as usize] = true;
            if let N::P(l, r) = &self.n[i as usize] {
                st.push(*l);
                st.push(*r);
            }
        }
        seen
    }
    pub fn all_nat(&self) -> Dag {
        Dag {
            n: self
                .n
                .iter()
                .map(|n| match n {
                    N::A(b, _) => N::A(b.clone(), Repr::Nat),
                    p => p.clone(),
                })
                .collect(),
        }
    }
}

pub fn build_atom(a: &mut Allocator, b: &[u8], r: Repr) -> Result<NodePtr, EvalErr> {
    match r {
        Repr::Nat => a.new_atom(b),
        Repr::Heap => {
            let x = a.new_atom(b)?;
            let nil = a.nil();
            a.new_concat(b.len(), &[nil, x])
        }
        Repr::View => {
            // prefix and suffix derived from the content, so the build is a
            // function of the bytes only
            let pre = 1 + (b.len() % 3);
            let suf = b.first().map(|x| (*x % 3) as usize).unwrap_or(1);
            let mut big = vec![0xa5u8; pre];
            big.extend_from_slice(b);
            big.extend(std::iter::repeat_n(0x5au8, suf));
            let x = a.new_atom(&big)?;
            let nil = a.nil();
            let heap = a.new_concat(big.len(), &[nil, x])?;
            a.new_substr(heap, pre as u32, (pre + b.len()) as u32)
        }
    }
}

/// build every node; returns the NodePtr of each dag node
pub fn build_all(a: &mut Allocator, d: &Dag) -> Result<Vec<NodePtr>, EvalErr> {
    let mut out: Vec<NodePtr> = Vec::with_capacity(d.n.len());
    for n in &d.n {
        let p = match n {
            N::A(b, r) => build_atom(a, b, *r)?,
            N::P(l, r) => a.new_pair(out[*l as usize], out[*r as usize])?,
        };
        out.push(p);
    }
    Ok(out)
}

pub fn build(a: &mut Allocator, d: &Dag) -> Result<NodePtr, EvalErr> {
    Ok(*build_all(a, d)?.last().expect("empty dag"))
}

/// Hash-consing table: equal ids <=> equal trees (by value).
#[derive(Default)]
pub struct Interner {
    atoms: HashMap<Vec<u8>, u32>,
    pairs: HashMap<(u32, u32), u32>,
    pub nodes: Vec<INode>,
}

#[derive(Clone, Debug)]
pub enum INode {
    A(Vec<u8>),
    P(u32, u32),
}

impl Interner {
    pub fn new() -> Self {
        Self::default()
    }
    pub fn atom(&mut self, b: &[u8]) -> u32 {
        if let Some(i) = self.atoms.get(b) {
            return *i;
        }
        let id = self.nodes.len() as u32;
        self.nodes.push(INode::A(b.to_vec()));
        self.atoms.insert(b.to_vec(), id);
        id
    }
    pub fn pair(&mut self, l: u32, r: u32) -> u32 {
        if let Some(i) = self.pairs.get(&(l, r)) {
            return *i;
        }
        let id = self.nodes.len() as u32;
        self.nodes.push(INode::P(l, r));
        self.pairs.insert((l, r), id);
        id
    }
    pub fn dag(&mut self, d: &Dag) -> u32 {
        *self.dag_all(d).last().expect("empty dag")
    }
    pub fn dag_all(&mut self, d: &Dag) -> Vec<u32> {
        let mut ids: Vec<u32> = Vec::with_capacity(d.n.len());
        for n in &d.n {
            let id = match n {
                N::A(b, _) => self.atom(b),
                N::P(l, r) => self.pair(ids[*l as usize], ids[*r as usize]),
            };
            ids.push(id);
        }
        ids
    }
    /// intern an allocator node (iterative, memoised per NodePtr)
    pub fn node(&mut self, a: &Allocator, root: NodePtr) -> u32 {
        let mut memo: HashMap<NodePtr, u32> = HashMap::new();
        self.node_memo(a, root, &mut memo)
    }
    pub fn node_memo(&mut self, a: &Allocator, root: NodePtr, memo: &mut HashMap<NodePtr, u32>) -> u32 {
        enum Op {
            Visit(NodePtr),
            Build(NodePtr, NodePtr, NodePtr),
        }
        let mut st = vec![Op::Visit(root)];
        while let Some(op) = st.pop() {
            match op {
                Op::Visit(n) => {
                    if memo.contains_key(&n) {
                        continue;
                    }
                    match a.sexp(n) {
                        SExp::Atom => {
                            let id = self.atom(a.atom(n).as_ref());
                            memo.insert(n, id);
                        }
                        SExp::Pair(l, r) => {
                            st.push(Op::Build(n, l, r));
                            st.push(Op::Visit(l));
                            st.push(Op::Visit(r));
                        }
                    }
                }
                Op::Build(n, l, r) => {
                    if memo.contains_key(&n) {
                        continue;
                    }
                    let id = self.pair(memo[&l], memo[&r]);
                    memo.insert(n, id);
                }
            }
        }
        memo[&root]
    }
    /// classic serialization (independent encoder), bounded output
    pub fn to_hex(&self, id: u32, limit: usize) -> String {
        let mut out = Vec::new();
        let mut st = vec![id];
        while let Some(i) = st.pop() {
            if out.len() > limit {
                break;
            }
            match &self.nodes[i as usize] {
                INode::A(b) => crate::model::refserde::encode_atom(b, &mut out),
                INode::P(l, r) => {
                    out.push(0xff);
                    st.push(*r);
                    st.push(*l);
                }
            }
        }
        let mut s = hex::encode(&out[..out.len().min(limit)]);
        if out.len() > limit {
            s.push('…');
        }
        s
    }
    /// expanded (tree) size in nodes, saturating
    pub fn tree_size(&self, id: u32) -> u64 {
        let mut memo: HashMap<u32, u64> = HashMap::new();
        let mut st = vec![(id, false)];
        while let Some((i, ready)) = st.pop() {
            if memo.contains_key(&i) {
                continue;
            }
            match &self.nodes[i as usize] {
                INode::A(_) => {
                    memo.insert(i, 1);
                }
                INode::P(l, r) => {
                    if ready {
                        let v = memo[l].saturating_add(memo[r]).saturating_add(1);
                        memo.insert(i, v);
                    } else {
                        st.push((i, true));
                        st.push((*l, false));
                        st.push((*r, false));
                    }
                }
            }
        }
        memo[&id]
    }
    /// convert to a Dag (all atoms natural), preserving sharing
    pub fn to_dag(&self, id: u32) -> Dag {
        let mut d = Dag::new();
        let mut map: HashMap<u32, u32> = HashMap::new();
        let mut st = vec![(id, false)];
        while let Some((i, ready)) = st.pop() {
            if map.contains_key(&i) {
                continue;
            }
            match &self.nodes[i as usize] {
                INode::A(b) => {
                    let k = d.atom(b);
                    map.insert(i, k);
                }
                INode::P(l, r) => {
                    if ready {
                        let k = d.pair(map[l], map[r]);
                        map.insert(i, k);
                    } else {
                        st.push((i, true));
                        st.push((*l, false));
                        st.push((*r, false));
                    }
                }
            }
        }
        d
    }
}

/// convert an allocator tree to a Dag (sharing by NodePtr identity is kept)
pub fn node_to_dag(a: &Allocator, root: NodePtr) -> Dag {
    let mut i = Interner::new();
    let id = i.node(a, root);
    i.to_dag(id)
}

pub fn dag_hex(d: &Dag, limit: usize) -> String {
    let mut i = Interner::new();
    let id = i.dag(d);
    i.to_hex(id, limit)
}

pub fn node_hex(a: &Allocator, n: NodePtr, limit: usize) -> String {
    let mut i = Interner::new();
    let id = i.node(a, n);
    i.to_hex(id, limit)
}

/// expand a DAG into a tree without sharing (None if it would exceed `limit` nodes)
pub fn unshare(d: &Dag, limit: usize) -> Option<Dag> {
    let mut i = Interner::new();
    let id = i.dag(d);
    if i.tree_size(id) > limit as u64 {
        return None;
    }
    let mut out = Dag::new();
    // post-order expansion with an explicit stack
    enum Op {
        Visit(u32),
        Build,
    }
    let mut st = vec![Op::Visit(d.root())];
    let mut vals: Vec<u32> = Vec::new();
    while let Some(op) = st.pop() {
        match op {
            Op::Visit(n) => match &d.n[n as usize] {
                N::A(b, r) => vals.push(out.atom_r(b, *r)),
                N::P(l, r) => {
                    st.push(Op::Build);
                    st.push(Op::Visit(*r));
                    st.push(Op::Visit(*l));
                }
            },
            Op::Build => {
                let r = vals.pop().unwrap();
                let l = vals.pop().unwrap();
                vals.push(out.pair(l, r));
            }
        }
    }
    Some(out)
}
