use verif_harness::checks;
use verif_harness::engine::{Runner, Tier, install_panic_hook};

fn usage() -> ! {
    eprintln!("usage: vh check <ID> quick|thorough | vh replay <FILE> | vh list");
    std::process::exit(2)
}

fn main() {
    let args: Vec<String> = std::env::args().collect();
    if args.len() < 2 {
        usage();
    }
    install_panic_hook();
    let seed: u64 = std::env::var("VERIF_SEED")
        .ok()
        .and_then(|s| s.parse().ok())
        .unwrap_or(20260921);
    match args[1].as_str() {
        "list" => {
            for (id, _) in checks::registry() {
                println!("{id}");
            }
        }
        "check" => {
            if args.len() < 4 {
                usage();
            }
            let tier = match args[3].as_str() {
                "quick" => Tier::Quick,
                "thorough" => Tier::Thorough,
                _ => usage(),
            };
            let Some((_, f)) = checks::registry().into_iter().find(|(id, _)| *id == args[2]) else {
                eprintln!("unknown check {}", args[2]);
                std::process::exit(2);
            };
            // safety watchdog: a run that takes absurdly long is inconclusive (exit 2), never a violation
            let limit_s: u64 = std::env::var("VERIF_WATCHDOG_S").ok().and_then(|s| s.parse().ok()).unwrap_or(if tier == Tier::Quick { 1500 } else { 6 * 3600 });
            let id = args[2].clone();
            std::thread::spawn(move || {
                std::thread::sleep(std::time::Duration::from_secs(limit_s));
                println!("INCONCLUSIVE: watchdog fired after {limit_s}s in check {id} (infrastructure, not a violation)");
                std::process::exit(2);
            });
            let mut r = Runner::new(&args[2], tier, seed);
            f(&mut r);
            std::process::exit(r.finish());
        }
        "replay" => {
            if args.len() < 3 {
                usage();
            }
            let s = std::fs::read_to_string(&args[2]).expect("read replay file");
            let v: serde_json::Value = serde_json::from_str(&s).expect("parse replay file");
            let id = v["property"].as_str().expect("property").to_string();
            let part = v["part"].as_str().expect("part").to_string();
            let Some((_, f)) = checks::registry().into_iter().find(|(i, _)| *i == id) else {
                eprintln!("unknown check {id}");
                std::process::exit(2);
            };
            let mut r = Runner::new(&id, Tier::Quick, seed);
            r.set_replay(part, v["case"].clone());
            f(&mut r);
            std::process::exit(r.finish());
        }
        "serve" => verif_harness::oracle_srv::serve(),
        "fuzzcase" => {
            if args.len() < 5 {
                usage();
            }
            let data = std::fs::read(&args[3]).expect("read artifact");
            match verif_harness::fuzzglue::artifact_to_replay(&args[2], &data) {
                Some(j) => {
                    std::fs::write(&args[4], serde_json::to_string_pretty(&j).unwrap()).expect("write replay");
                    println!("{}", args[4]);
                }
                None => {
                    eprintln!("artifact is outside the target's input domain or decoding panicked");
                    std::process::exit(2);
                }
            }
        }
        _ => usage(),
    }
}
