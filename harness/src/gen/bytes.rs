//! Byte-string generators: mutated serializations, token streams with
//! back-references, random bytes.

use super::trees::{TreeCfg, gen_tree};
use crate::model::refserde::encode_classic;
use crate::tape::Tape;

const INTERESTING: [u8; 14] = [
    0x00, 0x01, 0x7f, 0x80, 0x81, 0xbf, 0xc0, 0xdf, 0xe0, 0xf0, 0xf8, 0xfc, 0xfe, 0xff,
];

pub fn mutate(t: &mut Tape, b: &mut Vec<u8>) {
    let n = 1 + t.below(3);
    for _ in 0..n {
        let len = b.len();
        match t.weighted(&[3, 3, 2, 2, 2, 1, 2, 1]) {
            0 if len > 0 => {
                let i = t.below_usize(len);
                b[i] ^= 1 << t.below(8);
            }
            1 if len > 0 => {
                let i = t.below_usize(len);
                b[i] = *t.pick(&INTERESTING);
            }
            2 if len > 0 => {
                let i = t.below_usize(len);
                b.truncate(i);
            }
            3 => {
                let i = t.below_usize(len + 1);
                let v = if t.flip() { *t.pick(&INTERESTING) } else { (t.word() >> 24) as u8 };
                b.insert(i, v);
            }
            4 if len > 0 => {
                let i = t.below_usize(len);
                b.remove(i);
            }
            5 if len > 1 => {
                let i = t.below_usize(len - 1);
                let j = i + 1 + t.below_usize((len - i - 1).min(8));
                let s: Vec<u8> = b[i..j].to_vec();
                let at = t.below_usize(len);
                for (k, x) in s.into_iter().enumerate() {
                    b.insert(at + k, x);
                }
            }
            6 if len > 0 => {
                // widen a 1-byte length prefix (0x81..=0xbf) into a non-minimal 2..6 byte one
                let start = t.below_usize(len);
                if let Some(i) = (start..len).find(|i| (0x80..=0xbf).contains(&b[*i])) {
                    let size = (b[i] & 0x3f) as u64;
                    let k = 2 + t.below(5) as usize; // total prefix length
                    let mut p = vec![0u8; k];
                    p[0] = !(0xffu8 >> k);
                    p[k - 1] = size as u8;
                    b.splice(i..i + 1, p);
                }
            }
            _ => {
                let k = 1 + t.below(4) as usize;
                b.extend(t.bytes(k));
            }
        }
    }
}

fn path_atom(t: &mut Tape, out: &mut Vec<u8>) {
    match t.weighted(&[8, 3, 2, 1, 1, 1]) {
        0 => {
            // small path 1..=0x7f (single byte atom)
            out.push(1 + t.below(0x7f) as u8);
        }
        1 => {
            // 0x80..=0xff needs a length prefix
            out.push(0x81);
            out.push(0x80 + t.below(0x80) as u8);
        }
        2 => {
            // leading zero bytes
            let z = 1 + t.below(3) as u8;
            let v = 1 + t.below(0x7f) as u8;
            out.push(0x80 + z + 1);
            out.extend(std::iter::repeat_n(0u8, z as usize));
            out.push(v);
        }
        3 => {
            // zero / empty path
            if t.flip() { out.push(0x80) } else { out.push(0x00) }
        }
        4 => {
            // two-byte path
            out.push(0x82);
            out.extend(t.bytes(2));
        }
        _ => {
            // non-minimal prefix on a one byte path
            out.push(0xc0);
            out.push(0x01);
            out.push(1 + t.below(0x7f) as u8);
        }
    }
}

fn short_atom(t: &mut Tape, out: &mut Vec<u8>) {
    match t.weighted(&[5, 2, 3, 1]) {
        0 => out.push(t.below(0x80) as u8),
        1 => out.push(0x80),
        2 => {
            let n = 1 + t.below(8) as usize;
            out.push(0x80 + n as u8);
            out.extend(t.bytes(n));
        }
        _ => {
            let n = 0x40 + t.below(8) as usize;
            out.push(0xc0);
            out.push(n as u8);
            out.extend(t.bytes(n));
        }
    }
}

/// a syntactically well-formed token stream; back-references (when enabled)
/// may or may not resolve
pub fn token_stream(t: &mut Tape, backrefs: bool, budget: &mut u32, out: &mut Vec<u8>) {
    let mut pending = 1u32;
    while pending > 0 {
        pending -= 1;
        let choice = if *budget == 0 { 1 } else { t.weighted(&[4, 4, if backrefs { 3 } else { 0 }]) };
        match choice {
            0 => {
                *budget -= 1;
                out.push(0xff);
                pending += 2;
            }
            1 => short_atom(t, out),
            _ => {
                out.push(0xfe);
                path_atom(t, out);
            }
        }
    }
}

/// classic-format byte strings: valid, mutated, token streams or random
pub fn gen_classic_bytes(t: &mut Tape) -> Vec<u8> {
    match t.weighted(&[3, 5, 3, 2]) {
        0 => {
            let d = gen_tree(t, &TreeCfg { max_nodes: 24, max_atom: 70, ..Default::default() });
            encode_classic(&d, 1 << 20).unwrap_or_else(|| vec![0x80])
        }
        1 => {
            let d = gen_tree(t, &TreeCfg { max_nodes: 24, max_atom: 70, ..Default::default() });
            let mut b = encode_classic(&d, 1 << 20).unwrap_or_else(|| vec![0x80]);
            mutate(t, &mut b);
            b
        }
        2 => {
            let mut out = Vec::new();
            let mut budget = t.below(20);
            token_stream(t, false, &mut budget, &mut out);
            if t.chance(1, 3) {
                mutate(t, &mut out);
            }
            out
        }
        _ => {
            let n = t.below(24) as usize;
            (0..n).map(|_| if t.chance(1, 3) { *t.pick(&INTERESTING) } else { (t.word() >> 24) as u8 }).collect()
        }
    }
}
