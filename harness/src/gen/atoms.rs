//! Atom generators (choice-tape driven).

use crate::dag::Repr;
use crate::tape::Tape;

/// minimal two's-complement big-endian encoding (0 -> empty), written by hand
pub fn int_bytes(v: i128) -> Vec<u8> {
    if v == 0 {
        return vec![];
    }
    let mut b = v.to_be_bytes().to_vec();
    while b.len() > 1 {
        let redundant = (b[0] == 0 && b[1] & 0x80 == 0) || (b[0] == 0xff && b[1] & 0x80 != 0);
        if !redundant {
            break;
        }
        b.remove(0);
    }
    b
}

pub const BOUNDARY_INTS: [i128; 34] = [
    0, 1, 2, 36, 37, 0x7f, 0x80, 0xff, 0x100, 0x7fff, 0x8000, 0xffff, 0x10000, 0x7fffff, 0x800000,
    0xffffff, 0x1000000, 0x3ffffff, 0x4000000, 0x4000001, 0x7fffffff, 0x80000000, 0xffffffff,
    0x100000000, 0x7fffffffffffffff, 0x8000000000000000, 0xffffffffffffffff, 0x10000000000000000,
    -1, -2, -0x80, -0x81, -0x8000, -0x80000000,
];

pub const BOUNDARY_LENS: [usize; 24] = [
    0, 1, 2, 31, 32, 33, 47, 48, 49, 63, 64, 65, 95, 96, 97, 255, 256, 257, 1023, 1024, 1025, 2047,
    2048, 2049,
];

pub fn gen_int(t: &mut Tape) -> i128 {
    match t.weighted(&[4, 4, 2, 2, 1]) {
        0 => t.below(17) as i128,
        1 => {
            let b = *t.pick(&BOUNDARY_INTS);
            b + t.below(5) as i128 - 2
        }
        2 => -(t.below(300) as i128),
        3 => t.word() as i128 * if t.flip() { -1 } else { 1 },
        _ => {
            let v = ((t.u64() as i128) << 32) ^ t.u64() as i128;
            if t.flip() { -v } else { v }
        }
    }
}

/// add 1..4 redundant sign-extension bytes in front of an integer encoding
pub fn pad_int(t: &mut Tape, b: &[u8]) -> Vec<u8> {
    let neg = b.first().map(|x| x & 0x80 != 0).unwrap_or(false);
    let n = 1 + t.below(4) as usize;
    let mut out = vec![if neg { 0xff } else { 0 }; n];
    out.extend_from_slice(b);
    out
}

/// general atom bytes; `max_len` bounds the random-length classes
pub fn gen_atom(t: &mut Tape, max_len: usize) -> Vec<u8> {
    match t.weighted(&[6, 6, 2, 3, 5, 2, 2, 2, 1]) {
        0 => int_bytes(t.below(17) as i128),
        1 => int_bytes(gen_int(t)),
        2 => {
            let i = int_bytes(gen_int(t));
            pad_int(t, &i)
        }
        3 => {
            // path-like / opcode-like short atoms
            let n = 1 + t.below(3) as usize;
            t.bytes(n)
        }
        4 => {
            let n = t.below(65.min(max_len as u32 + 1)) as usize;
            t.bytes(n)
        }
        5 => {
            let n = (*t.pick(&BOUNDARY_LENS)).min(max_len);
            t.bytes(n)
        }
        6 => t.bytes(32.min(max_len)),
        7 => {
            // leading zero bytes followed by a short value
            let z = 1 + t.below(3) as usize;
            let mut v = vec![0u8; z];
            let n = t.below(3) as usize;
            v.extend(t.bytes(n));
            v
        }
        _ => {
            let n = t.below(max_len as u32 + 1) as usize;
            t.bytes(n)
        }
    }
}

pub fn gen_repr(t: &mut Tape) -> Repr {
    match t.weighted(&[6, 2, 2]) {
        0 => Repr::Nat,
        1 => Repr::Heap,
        _ => Repr::View,
    }
}
