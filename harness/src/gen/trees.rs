//! Tree (DAG) generators.

use super::atoms::{gen_atom, gen_repr};
use crate::dag::{Dag, N, Repr};
use crate::tape::Tape;

#[derive(Clone, Copy)]
pub struct TreeCfg {
    pub max_nodes: usize,
    pub max_atom: usize,
    pub reprs: bool,
    /// percent chance that a new atom re-uses the bytes of an earlier atom
    pub dup_atoms: u32,
    /// allow deep spines
    pub deep: usize,
}

impl Default for TreeCfg {
    fn default() -> Self {
        TreeCfg {
            max_nodes: 60,
            max_atom: 80,
            reprs: false,
            dup_atoms: 20,
            deep: 0,
        }
    }
}

fn new_atom(t: &mut Tape, d: &mut Dag, cfg: &TreeCfg, atoms: &mut Vec<u32>) -> u32 {
    let r = if cfg.reprs { gen_repr(t) } else { Repr::Nat };
    let id = if !atoms.is_empty() && t.chance(cfg.dup_atoms, 100) {
        let src = atoms[t.below_usize(atoms.len())];
        let N::A(b, _) = d.n[src as usize].clone() else {
            unreachable!()
        };
        d.atom_r(&b, r)
    } else {
        let b = gen_atom(t, cfg.max_atom);
        d.atom_r(&b, r)
    };
    atoms.push(id);
    id
}

/// random DAG: a pool of nodes combined by pairing earlier nodes (sharing and
/// value-equal copies both occur). The root is the last node.
pub fn gen_tree(t: &mut Tape, cfg: &TreeCfg) -> Dag {
    let mut d = Dag::new();
    let mut atoms: Vec<u32> = Vec::new();
    let shape = t.weighted(&[2, 10, 3, 2, 2]);
    match shape {
        0 => {
            new_atom(t, &mut d, cfg, &mut atoms);
        }
        1 => {
            // pool combination
            let n = 1 + t.below_usize(cfg.max_nodes.max(2) - 1);
            let n_atoms = 1 + t.below_usize(n.div_ceil(2).max(1));
            for _ in 0..n_atoms {
                new_atom(t, &mut d, cfg, &mut atoms);
            }
            let n_pairs = n.saturating_sub(n_atoms).max(1);
            let mut unused: Vec<u32> = d.n.iter().enumerate().map(|(i, _)| i as u32).collect();
            for _ in 0..n_pairs {
                let len = d.n.len();
                // prefer combining not-yet-used nodes so the tree stays connected
                let pickn = |t: &mut Tape, unused: &mut Vec<u32>| -> u32 {
                    if !unused.is_empty() && t.chance(3, 4) {
                        let k = t.below_usize(unused.len());
                        unused.swap_remove(k)
                    } else {
                        t.below_usize(len) as u32
                    }
                };
                let l = pickn(t, &mut unused);
                let r = pickn(t, &mut unused);
                let p = d.pair(l, r);
                unused.push(p);
            }
            // join whatever is left so everything is reachable
            while unused.len() > 1 {
                let r = unused.pop().unwrap();
                let l = unused.pop().unwrap();
                let p = d.pair(l, r);
                unused.push(p);
            }
            if unused[0] != d.root() {
                let x = unused[0];
                let nil = d.nil();
                d.pair(x, nil);
            }
        }
        2 => {
            // proper or improper list
            let n = t.below_usize(cfg.max_nodes.max(2) / 2 + 1);
            let mut items = Vec::new();
            for _ in 0..n {
                items.push(new_atom(t, &mut d, cfg, &mut atoms));
            }
            let term = if t.chance(1, 4) {
                new_atom(t, &mut d, cfg, &mut atoms)
            } else {
                d.nil()
            };
            d.list_term(&items, term);
        }
        3 => {
            // spine (left or right), possibly deep
            let max = if cfg.deep > 0 && t.chance(1, 8) {
                cfg.deep
            } else {
                cfg.max_nodes
            };
            let n = 1 + t.below_usize(max.max(2) - 1);
            let left = t.flip();
            let mut cur = new_atom(t, &mut d, cfg, &mut atoms);
            let other = new_atom(t, &mut d, cfg, &mut atoms);
            for _ in 0..n {
                cur = if left { d.pair(cur, other) } else { d.pair(other, cur) };
            }
        }
        _ => {
            // doubling tree: heavy sharing
            let depth = 1 + t.below_usize(12);
            let mut cur = new_atom(t, &mut d, cfg, &mut atoms);
            for _ in 0..depth {
                cur = if t.chance(1, 4) {
                    let x = new_atom(t, &mut d, cfg, &mut atoms);
                    if t.flip() { d.pair(cur, x) } else { d.pair(x, cur) }
                } else {
                    d.pair(cur, cur)
                };
            }
        }
    }
    d
}
