pub mod atoms;
pub mod bytes;
pub mod programs;
pub mod trees;
