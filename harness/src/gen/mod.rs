pub mod atoms;
pub mod bytes;
pub mod trees;
