pub mod atoms;
pub mod trees;
