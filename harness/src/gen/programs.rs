//! Typed CLVM program generator (choice-tape driven) with a near-validity
//! mutation layer.

use super::atoms::{gen_atom, gen_int, gen_repr, int_bytes, pad_int};
use super::trees::{TreeCfg, gen_tree};
use crate::dag::{Dag, N, Repr, build};
use crate::tape::Tape;
use clvmr::allocator::Allocator;
use clvmr::chia_dialect::{ChiaDialect, ClvmFlags};
use clvmr::run_program::run_program;
use serde::{Deserialize, Serialize};
use std::sync::OnceLock;

#[derive(Clone, Copy, PartialEq, Eq, Debug)]
pub enum Ty {
    Int,
    Bytes,
    B32,
    Bool,
    G1,
    G2,
    List,
    Any,
}

#[derive(Clone, Copy, PartialEq, Eq, Debug)]
pub enum OpSet {
    /// opcodes 1..36 minus 29/30, plus unknown opcodes
    Classic,
    /// everything ChiaDialect knows
    All,
}

#[derive(Clone, Copy)]
pub struct ProgCfg {
    pub ops: OpSet,
    pub max_depth: u32,
    /// probability (percent) of applying the near-validity mutation layer
    pub mutate_pct: u32,
    pub guards: bool,
    /// flags used for the cost pre-run of softfork guards
    pub prerun_flags: u32,
    /// percent of programs that are entirely random trees
    pub raw_pct: u32,
    /// assign non-natural representations to atoms
    pub reprs: bool,
    /// allow unknown opcodes
    pub unknown_ops: bool,
    /// allow BLS / secp / heavy crypto operators
    pub crypto: bool,
    pub max_atom: usize,
    /// percent of Int/Bytes environment values that are large atoms (300..4096 bytes)
    pub env_big_pct: u32,
}

impl Default for ProgCfg {
    fn default() -> Self {
        ProgCfg {
            ops: OpSet::All,
            max_depth: 5,
            mutate_pct: 25,
            guards: true,
            prerun_flags: 0,
            raw_pct: 5,
            reprs: false,
            unknown_ops: true,
            crypto: true,
            max_atom: 64,
            env_big_pct: 0,
        }
    }
}

#[derive(Serialize, Deserialize, Clone, Debug, Default)]
pub struct ProgInfo {
    pub guard: bool,
    pub unknown_op: bool,
    pub mutated: bool,
    pub raw: bool,
    pub recursive: bool,
    pub noncanonical_int: bool,
    pub leading_zero_path: bool,
}

#[derive(Serialize, Deserialize, Clone, Debug)]
pub struct GenProg {
    pub prog: Dag,
    pub env: Dag,
    #[serde(default)]
    pub info: ProgInfo,
}

struct Points {
    g1: Vec<Vec<u8>>,
    g2: Vec<Vec<u8>>,
}

fn points() -> &'static Points {
    static P: OnceLock<Points> = OnceLock::new();
    P.get_or_init(|| {
        let mut g1 = Vec::new();
        let mut g2 = Vec::new();
        for k in 0u8..6 {
            let mut sk = [0u8; 32];
            sk[31] = k;
            g1.push(chia_bls::G1Element::from_integer(&sk).to_bytes().to_vec());
        }
        g2.push(chia_bls::G2Element::default().to_bytes().to_vec());
        for k in 1u8..5 {
            g2.push(chia_bls::hash_to_g2(&[k]).to_bytes().to_vec());
        }
        Points { g1, g2 }
    })
}

pub fn valid_g1(k: usize) -> Vec<u8> {
    let p = points();
    p.g1[k % p.g1.len()].clone()
}

pub fn valid_g2(k: usize) -> Vec<u8> {
    let p = points();
    p.g2[k % p.g2.len()].clone()
}

fn gen_g1_bytes(t: &mut Tape) -> Vec<u8> {
    match t.weighted(&[8, 1, 1, 1]) {
        0 => valid_g1(t.below_usize(6)),
        1 => {
            let mut b = valid_g1(1 + t.below_usize(5));
            let i = t.below_usize(48);
            b[i] ^= 1 << t.below(8);
            b
        }
        2 => t.bytes(48),
        _ => {
            let mut b = valid_g1(t.below_usize(6));
            b.truncate(47 + 2 * t.below_usize(2));
            if b.len() == 47 { b } else { let mut c = b; c.push(0); c }
        }
    }
}

fn gen_g2_bytes(t: &mut Tape) -> Vec<u8> {
    match t.weighted(&[8, 1, 1]) {
        0 => valid_g2(t.below_usize(5)),
        1 => {
            let mut b = valid_g2(1 + t.below_usize(4));
            let i = t.below_usize(96);
            b[i] ^= 1 << t.below(8);
            b
        }
        _ => t.bytes(96),
    }
}

/// value of a type, appended to `d`
pub fn gen_value(t: &mut Tape, d: &mut Dag, ty: Ty, depth: u32, cfg: &ProgCfg, info: &mut ProgInfo) -> u32 {
    let r = |t: &mut Tape| if cfg.reprs { gen_repr(t) } else { Repr::Nat };
    match ty {
        Ty::Int => {
            let mut b = int_bytes(gen_int(t));
            if t.chance(1, 8) {
                b = pad_int(t, &b);
                info.noncanonical_int = true;
            }
            let rr = r(t);
            d.atom_r(&b, rr)
        }
        Ty::Bytes => {
            let b = gen_atom(t, cfg.max_atom);
            let rr = r(t);
            d.atom_r(&b, rr)
        }
        Ty::B32 => {
            let b = t.bytes(32);
            let rr = r(t);
            d.atom_r(&b, rr)
        }
        Ty::Bool => {
            if t.flip() {
                d.atom(&[1])
            } else {
                d.atom(&[])
            }
        }
        Ty::G1 => {
            let b = gen_g1_bytes(t);
            let rr = r(t);
            d.atom_r(&b, rr)
        }
        Ty::G2 => {
            let b = gen_g2_bytes(t);
            let rr = r(t);
            d.atom_r(&b, rr)
        }
        Ty::List => {
            let n = t.below(4);
            let mut items = Vec::new();
            for _ in 0..n {
                let ty2 = *t.pick(&[Ty::Int, Ty::Bytes, Ty::Any, Ty::Bool]);
                items.push(gen_value(t, d, ty2, depth.saturating_sub(1), cfg, info));
            }
            d.list(&items)
        }
        Ty::Any => {
            if depth == 0 || t.chance(1, 2) {
                let ty2 = *t.pick(&[Ty::Int, Ty::Bytes, Ty::Bool, Ty::Int]);
                gen_value(t, d, ty2, 0, cfg, info)
            } else {
                let sub = gen_tree(t, &TreeCfg { max_nodes: 8, max_atom: 12, reprs: cfg.reprs, dup_atoms: 20, deep: 0 });
                d.append(&sub)
            }
        }
    }
}

struct B<'a, 'b> {
    t: &'a mut Tape<'b>,
    d: Dag,
    env: Vec<Ty>,
    cfg: ProgCfg,
    info: ProgInfo,
}

fn slot_path(i: usize) -> Vec<u8> {
    // rest i times, then first
    let v: i128 = (1i128 << (i + 1)) + ((1i128 << i) - 1);
    int_bytes(v)
}

const UNKNOWN_1BYTE: [u8; 10] = [15, 28, 31, 35, 37, 40, 47, 66, 0x7f, 0xc8];

impl B<'_, '_> {
    fn atom(&mut self, b: &[u8]) -> u32 {
        self.d.atom(b)
    }
    fn op(&mut self, code: u32) -> u32 {
        let b = int_bytes(code as i128);
        self.d.atom(&b)
    }
    fn quote(&mut self, v: u32) -> u32 {
        let q = self.d.atom(&[1]);
        self.d.pair(q, v)
    }
    fn call(&mut self, op: u32, args: &[u32]) -> u32 {
        let l = self.d.list(args);
        self.d.pair(op, l)
    }
    fn callc(&mut self, code: u32, args: &[u32]) -> u32 {
        let o = self.op(code);
        self.call(o, args)
    }

    fn unknown_opcode(&mut self) -> Vec<u8> {
        self.info.unknown_op = true;
        match self.t.weighted(&[4, 4, 2, 1, 1]) {
            0 => vec![*self.t.pick(&UNKNOWN_1BYTE)],
            1 => {
                // multi-byte: multiplier bytes + final byte with cost function bits
                let n = 1 + self.t.below(3) as usize;
                let mut b: Vec<u8> = (0..n).map(|_| self.t.below(4) as u8).collect();
                let last = (self.t.below(4) << 6) as u8 | self.t.below(64) as u8;
                b.push(last);
                if b[0] == 0 && b.len() > 1 && b[1] & 0x80 == 0 {
                    b[0] = 1;
                }
                b
            }
            2 => vec![0xff, 0xff, self.t.below(256) as u8],
            3 => {
                let n = 5 + self.t.below(3) as usize;
                let mut b = self.t.bytes(n);
                b[0] &= 0x7f;
                if b[0] == 0 {
                    b[0] = 1;
                }
                b
            }
            _ => vec![0x13, 0xd6, 0x1f, self.t.below(255) as u8 + 1],
        }
    }

    fn slots_of(&self, ty: Ty) -> Vec<usize> {
        self.env
            .iter()
            .enumerate()
            .filter(|(_, e)| **e == ty || (ty == Ty::Any) || (ty == Ty::Bytes && matches!(**e, Ty::Int | Ty::B32 | Ty::Bool | Ty::G1 | Ty::G2)) || (ty == Ty::Int && matches!(**e, Ty::Bool)))
            .map(|(i, _)| i)
            .collect()
    }

    fn leaf(&mut self, ty: Ty) -> u32 {
        let slots = self.slots_of(ty);
        if !slots.is_empty() && self.t.chance(1, 2) {
            let i = slots[self.t.below_usize(slots.len())];
            let mut p = slot_path(i);
            if self.t.chance(1, 12) {
                let z = 1 + self.t.below(2) as usize;
                let mut q = vec![0u8; z];
                q.extend(p);
                p = q;
                self.info.leading_zero_path = true;
            }
            self.atom(&p)
        } else {
            let cfg = self.cfg;
            let mut info = std::mem::take(&mut self.info);
            let v = gen_value(self.t, &mut self.d, ty, 2, &cfg, &mut info);
            self.info = info;
            self.quote(v)
        }
    }

    fn args(&mut self, ty: Ty, n: usize, depth: u32) -> Vec<u32> {
        (0..n).map(|_| self.expr(ty, depth)).collect()
    }

    fn expr(&mut self, ty: Ty, depth: u32) -> u32 {
        if depth == 0 || self.t.chance(1, 4) {
            return self.leaf(ty);
        }
        let d = depth - 1;
        let all = self.cfg.ops == OpSet::All;
        let crypto = all && self.cfg.crypto;
        // generic constructs available at every type
        let generic = self.t.weighted(&[10, 2, 1, 1, if self.cfg.unknown_ops { 1 } else { 0 }, if self.cfg.guards { 1 } else { 0 }]);
        match generic {
            1 => {
                // (i c a b) or the lazy-if idiom
                let c = self.expr(Ty::Bool, d);
                let a = self.expr(ty, d);
                let b = self.expr(ty, d);
                if self.t.flip() {
                    return self.callc(3, &[c, a, b]);
                }
                let qa = self.quote(a);
                let qb = self.quote(b);
                let sel = self.callc(3, &[c, qa, qb]);
                let one = self.atom(&[1]);
                return self.callc(2, &[sel, one]);
            }
            2 => {
                // (a (q . P) 1)  or  (a (q . P) (c X 1))
                let saved_env = self.env.clone();
                let env_expr = if self.t.flip() {
                    self.atom(&[1])
                } else {
                    let ty2 = *self.t.pick(&[Ty::Int, Ty::Bytes, Ty::List, Ty::Any]);
                    let x = self.expr(ty2, d);
                    let one = self.atom(&[1]);
                    self.env.insert(0, ty2);
                    self.callc(4, &[x, one])
                };
                let body = self.expr(ty, d);
                self.env = saved_env;
                let qb = self.quote(body);
                return self.callc(2, &[qb, env_expr]);
            }
            3 => {
                // f / r of a constructed pair
                let x = self.expr(ty, d);
                let other = self.expr(Ty::Any, d.min(1));
                return if self.t.flip() {
                    let p = self.callc(4, &[x, other]);
                    self.callc(5, &[p])
                } else {
                    let p = self.callc(4, &[other, x]);
                    self.callc(6, &[p])
                };
            }
            4 => {
                // unknown operator (value nil): usable where nil is acceptable
                if matches!(ty, Ty::Bool | Ty::Any | Ty::Int | Ty::Bytes | Ty::List) {
                    let code = self.unknown_opcode();
                    let o = self.atom(&code);
                    let n = self.t.below(4) as usize;
                    let a = self.args(Ty::Bytes, n, d.min(1));
                    return self.call(o, &a);
                }
            }
            5 => {
                if matches!(ty, Ty::Bool | Ty::Any | Ty::Int | Ty::Bytes | Ty::List) {
                    return self.guard(d);
                }
            }
            _ => {}
        }
        match ty {
            Ty::Int => {
                let k = self.t.weighted(&[6, 5, 4, 3, 2, 2, 2, 2, 2, 2, 2, 2, 2, if all { 2 } else { 0 }, if all { 1 } else { 0 }]);
                match k {
                    0 => {
                        let n = self.t.below(4) as usize;
                        let a = self.args(Ty::Int, n, d);
                        self.callc(16, &a)
                    }
                    1 => {
                        let n = self.t.below(4) as usize;
                        let a = self.args(Ty::Int, n, d);
                        self.callc(17, &a)
                    }
                    2 => {
                        let n = self.t.below(4) as usize;
                        let a = self.args(Ty::Int, n, d);
                        self.callc(18, &a)
                    }
                    3 => {
                        let a = self.args(Ty::Int, 2, d);
                        self.callc(19, &a)
                    }
                    4 => {
                        let a = self.args(Ty::Int, 2, d);
                        let dm = self.callc(20, &a);
                        let c = if self.t.flip() { 5 } else { 6 };
                        self.callc(c, &[dm])
                    }
                    5 | 6 => {
                        let x = self.expr(Ty::Int, d);
                        let v = if self.t.chance(1, 10) {
                            *self.t.pick(&[65535i128, -65535, 65536, -65536, 65534, 255, 256, -256, 1024, -1024, 0x7fffffff, -0x80000000])
                        } else {
                            self.t.below(40) as i128 - 20
                        };
                        let sv = self.atom(&int_bytes(v));
                        let s = self.quote(sv);
                        self.callc(if k == 5 { 22 } else { 23 }, &[x, s])
                    }
                    7 | 8 | 9 => {
                        let n = self.t.below(4) as usize;
                        let a = self.args(Ty::Int, n, d);
                        self.callc(24 + (k as u32 - 7), &a)
                    }
                    10 => {
                        let a = self.args(Ty::Int, 1, d);
                        self.callc(27, &a)
                    }
                    11 => {
                        let a = self.args(Ty::Bytes, 1, d);
                        self.callc(13, &a)
                    }
                    12 => self.leaf(Ty::Int),
                    13 => {
                        let a = self.args(Ty::Int, 2, d);
                        self.callc(61, &a)
                    }
                    _ => {
                        let a = self.args(Ty::Int, 3, d.min(1));
                        self.callc(60, &a)
                    }
                }
            }
            Ty::Bytes | Ty::B32 => {
                let k = self.t.weighted(&[if ty == Ty::Bytes { 5 } else { 0 }, if ty == Ty::Bytes { 4 } else { 0 }, 5, if all { 2 } else { 0 }, if all { 2 } else { 0 }, if all { 2 } else { 0 }, 1]);
                match k {
                    0 => {
                        let n = self.t.below(4) as usize;
                        let a = self.args(Ty::Bytes, n, d);
                        self.callc(14, &a)
                    }
                    1 => {
                        let x = self.expr(Ty::Bytes, d);
                        let sv = self.t.below(6) as i128;
                        let s0 = self.atom(&int_bytes(sv));
                        let s = self.quote(s0);
                        if self.t.flip() {
                            self.callc(12, &[x, s])
                        } else {
                            let ev = sv + self.t.below(6) as i128;
                            let e0 = self.atom(&int_bytes(ev));
                            let e = self.quote(e0);
                            self.callc(12, &[x, s, e])
                        }
                    }
                    2 => {
                        let n = self.t.below(4) as usize;
                        let a = self.args(Ty::Bytes, n, d);
                        self.callc(11, &a)
                    }
                    3 => {
                        let n = self.t.below(3) as usize;
                        let a = self.args(Ty::Bytes, n, d);
                        self.callc(62, &a)
                    }
                    4 => {
                        let a = self.args(Ty::Any, 1, d);
                        self.callc(63, &a)
                    }
                    5 => {
                        let p = self.expr(Ty::B32, d.min(1));
                        let q = self.expr(Ty::B32, d.min(1));
                        let amt = self.t.u64() >> self.t.below(64);
                        let a0 = self.atom(&int_bytes(amt as i128));
                        let a = self.quote(a0);
                        self.callc(48, &[p, q, a])
                    }
                    _ => self.leaf(ty),
                }
            }
            Ty::Bool => {
                let k = self.t.weighted(&[4, 4, 3, 3, 2, 2, 2, if crypto { 1 } else { 0 }, if crypto { 1 } else { 0 }]);
                match k {
                    0 => {
                        let a = self.args(Ty::Bytes, 2, d);
                        self.callc(9, &a)
                    }
                    1 => {
                        let a = self.args(Ty::Int, 2, d);
                        self.callc(21, &a)
                    }
                    2 => {
                        let a = self.args(Ty::Bytes, 2, d);
                        self.callc(10, &a)
                    }
                    3 => {
                        let a = self.args(Ty::Any, 1, d);
                        self.callc(32, &a)
                    }
                    4 | 5 => {
                        let n = self.t.below(4) as usize;
                        let a = self.args(Ty::Bool, n, d);
                        self.callc(if k == 4 { 33 } else { 34 }, &a)
                    }
                    6 => {
                        let a = self.args(Ty::Any, 1, d);
                        self.callc(7, &a)
                    }
                    7 => {
                        if self.t.flip() {
                            self.pairing(d)
                        } else {
                            self.bls_verify()
                        }
                    }
                    _ => self.secp(),
                }
            }
            Ty::G1 => {
                if !crypto {
                    return self.leaf(Ty::G1);
                }
                let k = self.t.weighted(&[3, 2, 2, 2, 2, 1, 3]);
                match k {
                    0 => {
                        let n = self.t.below(3) as usize;
                        let a = self.args(Ty::G1, n, d.min(1));
                        self.callc(29, &a)
                    }
                    1 => {
                        let a = self.args(Ty::Int, 1, d.min(1));
                        self.callc(30, &a)
                    }
                    2 => {
                        let n = self.t.below(3) as usize;
                        let a = self.args(Ty::G1, n, d.min(1));
                        self.callc(49, &a)
                    }
                    3 => {
                        let p = self.expr(Ty::G1, d.min(1));
                        let s = self.expr(Ty::Int, d.min(1));
                        self.callc(50, &[p, s])
                    }
                    4 => {
                        let a = self.args(Ty::G1, 1, d.min(1));
                        self.callc(51, &a)
                    }
                    5 => {
                        let m = self.expr(Ty::Bytes, 0);
                        if self.t.flip() {
                            self.callc(56, &[m])
                        } else {
                            let dst = self.expr(Ty::Bytes, 0);
                            self.callc(56, &[m, dst])
                        }
                    }
                    _ => self.leaf(Ty::G1),
                }
            }
            Ty::G2 => {
                if !crypto {
                    return self.leaf(Ty::G2);
                }
                let k = self.t.weighted(&[2, 2, 2, 2, 1, 3]);
                match k {
                    0 | 1 => {
                        let n = self.t.below(3) as usize;
                        let a = self.args(Ty::G2, n, d.min(1));
                        self.callc(52 + k as u32, &a)
                    }
                    2 => {
                        let p = self.expr(Ty::G2, d.min(1));
                        let s = self.expr(Ty::Int, d.min(1));
                        self.callc(54, &[p, s])
                    }
                    3 => {
                        let a = self.args(Ty::G2, 1, d.min(1));
                        self.callc(55, &a)
                    }
                    4 => {
                        let m = self.expr(Ty::Bytes, 0);
                        self.callc(57, &[m])
                    }
                    _ => self.leaf(Ty::G2),
                }
            }
            Ty::List | Ty::Any => {
                let k = self.t.weighted(&[5, 3, 2, 2, 2, 2, 1, if crypto { 1 } else { 0 }, if crypto { 1 } else { 0 }]);
                match k {
                    0 => {
                        let x = self.expr(Ty::Any, d);
                        let y = self.expr(ty, d);
                        self.callc(4, &[x, y])
                    }
                    1 => self.expr(Ty::Int, d),
                    2 => self.expr(Ty::Bytes, d),
                    3 => self.expr(Ty::Bool, d),
                    4 => {
                        let a = self.args(Ty::Int, 2, d);
                        self.callc(20, &a)
                    }
                    5 => self.leaf(ty),
                    6 => {
                        // raise
                        let n = self.t.below(3) as usize;
                        let a = self.args(Ty::Any, n, d.min(1));
                        self.callc(8, &a)
                    }
                    7 => self.expr(Ty::G1, d),
                    _ => self.expr(Ty::G2, d),
                }
            }
        }
    }

    fn pairing(&mut self, d: u32) -> u32 {
        // (bls_pairing_identity g1 g2 g1 g2 ...) ; mostly cancelling pairs
        let n = self.t.below(3) as usize;
        let mut a = Vec::new();
        let p = points();
        for _ in 0..n {
            if self.t.chance(2, 3) {
                // e(P, Q) * e(-P, Q) = 1
                let g1 = p.g1[1 + self.t.below_usize(4)].clone();
                let mut neg = g1.clone();
                neg[0] ^= 0x20;
                let g2 = p.g2[1 + self.t.below_usize(3)].clone();
                for (x, y) in [(g1, g2.clone()), (neg, g2)] {
                    let x0 = self.atom(&x);
                    let xq = self.quote(x0);
                    let y0 = self.atom(&y);
                    let yq = self.quote(y0);
                    a.push(xq);
                    a.push(yq);
                }
            } else {
                a.push(self.expr(Ty::G1, d.min(1)));
                a.push(self.expr(Ty::G2, d.min(1)));
            }
        }
        self.callc(58, &a)
    }

    fn bls_verify(&mut self) -> u32 {
        // (bls_verify sig pk msg ...) with signatures made by the library (AUG scheme), sometimes broken
        let n = self.t.below(3) as usize;
        let mut sigs = Vec::new();
        let mut args = Vec::new();
        for k in 0..n {
            let seed = [self.t.below(4) as u8 + 1; 32];
            let sk = chia_bls::SecretKey::from_seed(&seed);
            let pk = sk.public_key();
            let msg = self.t.bytes(1 + k);
            sigs.push(chia_bls::sign(&sk, &msg));
            let p0 = self.atom(&pk.to_bytes());
            args.push(self.quote(p0));
            let m0 = self.atom(&msg);
            args.push(self.quote(m0));
        }
        let mut agg = chia_bls::Signature::default();
        for s in &sigs {
            agg += s;
        }
        let mut sb = agg.to_bytes().to_vec();
        if self.t.chance(1, 5) {
            sb = valid_g2(self.t.below_usize(5));
        }
        let s0 = self.atom(&sb);
        let sq = self.quote(s0);
        let mut all = vec![sq];
        all.extend(args);
        if self.t.chance(1, 8) {
            all.pop();
        }
        self.callc(59, &all)
    }

    fn secp(&mut self) -> u32 {
        // mostly invalid material (valid signatures come from refcrypto in C32)
        let which = self.t.below(4);
        let pk = self.t.bytes(33);
        let msg = self.t.bytes(32);
        let sig = self.t.bytes(64);
        let mut args = Vec::new();
        for b in [pk, msg, sig] {
            let a0 = self.atom(&b);
            args.push(self.quote(a0));
        }
        match which {
            0 => self.callc(64, &args),
            1 => self.callc(65, &args),
            2 => {
                let o = self.atom(&[0x13, 0xd6, 0x1f, 0x00]);
                self.call(o, &args)
            }
            _ => {
                let o = self.atom(&[0x1c, 0x3a, 0x8f, 0x00]);
                self.call(o, &args)
            }
        }
    }

    /// (softfork (q . cost) (q . ext) (q . P) (q . ENV)) with the cost taken from a pre-run
    fn guard(&mut self, d: u32) -> u32 {
        self.info.guard = true;
        let ext = match self.t.weighted(&[5, 3, 1, 1]) {
            0 => 0u32,
            1 => 1,
            2 => 2 + self.t.below(3),
            _ => 0xffff_ffff,
        };
        // inner program over a quoted constant environment
        let mut inner = B { t: self.t, d: Dag::new(), env: vec![], cfg: self.cfg, info: ProgInfo::default() };
        let n_env = inner.t.below(3) as usize;
        let mut env_d = Dag::new();
        let mut vals = Vec::new();
        for _ in 0..n_env {
            let ty = *inner.t.pick(&[Ty::Int, Ty::Bytes, Ty::Bool, Ty::G1]);
            let cfg = inner.cfg;
            let mut info = ProgInfo::default();
            vals.push(gen_value(inner.t, &mut env_d, ty, 1, &cfg, &mut info));
            inner.env.push(ty);
        }
        env_d.list(&vals);
        // inside extension 1 keccak is available: bias towards it
        let body_ty = *inner.t.pick(&[Ty::Int, Ty::Bytes, Ty::Bool, Ty::Any]);
        let body = if ext == 1 && inner.t.chance(1, 2) {
            let n = inner.t.below(3) as usize;
            let a = inner.args(Ty::Bytes, n, d.min(1));
            inner.callc(62, &a)
        } else {
            inner.expr(body_ty, d.min(2))
        };
        let _ = body;
        let inner_prog = std::mem::take(&mut inner.d);
        let inner_info = std::mem::take(&mut inner.info);
        drop(inner);
        if inner_info.unknown_op {
            self.info.unknown_op = true;
        }
        // pre-run for the cost
        let flags = self.cfg.prerun_flags | if ext == 1 { 0x0100 } else { 0 };
        let new_model = flags & 0x2000 != 0;
        let guard_cost: u64 = if new_model { 500 } else { 140 };
        let inner_cost = {
            let mut a = Allocator::new();
            match (build(&mut a, &inner_prog), build(&mut a, &env_d)) {
                (Ok(p), Ok(e)) => {
                    let dialect = ChiaDialect::new(ClvmFlags::from_bits_truncate(flags));
                    std::panic::catch_unwind(std::panic::AssertUnwindSafe(|| run_program(&mut a, &dialect, p, e, 50_000_000).map(|r| r.0)))
                        .ok()
                        .and_then(|r| r.ok())
                }
                _ => None,
            }
        };
        let exact = inner_cost.map(|c| c + guard_cost).unwrap_or(1000 + self.t.below(1000) as u64);
        let declared: i128 = match self.t.weighted(&[12, 1, 1, 1, 1]) {
            0 => exact as i128,
            1 => exact as i128 + 1,
            2 => exact as i128 - 1,
            3 => self.t.below(100000) as i128,
            _ => *self.t.pick(&[0i128, -1, 1 << 40, u64::MAX as i128, (u64::MAX as i128) + 1]),
        };
        let mut cb = int_bytes(declared);
        if self.t.chance(1, 12) {
            cb = pad_int(self.t, &cb);
            self.info.noncanonical_int = true;
        }
        let c0 = self.atom(&cb);
        let c = self.quote(c0);
        let mut eb = int_bytes(ext as i128);
        if self.t.chance(1, 12) {
            eb = pad_int(self.t, &eb);
            self.info.noncanonical_int = true;
        }
        let e0 = self.atom(&eb);
        let e = self.quote(e0);
        let p0 = self.d.append(&inner_prog);
        let p = self.quote(p0);
        let v0 = self.d.append(&env_d);
        let v = self.quote(v0);
        let mut args = vec![c, e, p, v];
        match self.t.weighted(&[14, 1, 1]) {
            1 => {
                args.pop();
            }
            2 => {
                let x = self.leaf(Ty::Any);
                args.push(x);
            }
            _ => {}
        }
        self.callc(36, &args)
    }
}

/// the near-validity mutation layer, applied to the program dag
fn mutate_prog(t: &mut Tape, d: &mut Dag, info: &mut ProgInfo) {
    info.mutated = true;
    let n = 1 + t.below(2);
    for _ in 0..n {
        let len = d.n.len();
        let i = t.below_usize(len);
        match t.weighted(&[3, 2, 2, 2, 2, 1]) {
            0 => {
                // change an atom (possibly an opcode) to something else
                if let N::A(b, _) = &mut d.n[i] {
                    *b = match t.below(4) {
                        0 => vec![t.below(70) as u8],
                        1 => {
                            info.unknown_op = true;
                            vec![1 + t.below(3) as u8, (t.below(4) << 6) as u8]
                        }
                        2 => {
                            let mut x = vec![0u8];
                            x.extend_from_slice(b);
                            info.noncanonical_int = true;
                            x
                        }
                        _ => gen_atom(t, 20),
                    };
                }
            }
            1 => {
                // improper terminator: replace a nil with a non-nil atom
                if let Some(k) = (i..len).chain(0..i).find(|k| matches!(&d.n[*k], N::A(b, _) if b.is_empty())) {
                    d.n[k] = N::A(vec![1 + t.below(5) as u8], Repr::Nat);
                }
            }
            2 => {
                // drop an argument: pair (x . rest) -> rest's children
                if let Some(k) = (i..len).chain(0..i).find(|k| matches!(&d.n[*k], N::P(..))) {
                    if let N::P(_, r) = d.n[k].clone() {
                        if let N::P(l2, r2) = d.n[r as usize].clone() {
                            d.n[k] = N::P(l2, r2);
                        }
                    }
                }
            }
            3 => {
                // duplicate an argument: (x . rest) -> (x . (x . rest)) ; needs a new node after k, so
                // only re-point: make left child also the head of rest when rest is a pair
                if let Some(k) = (i..len).chain(0..i).find(|k| matches!(&d.n[*k], N::P(..))) {
                    if let N::P(l, r) = d.n[k].clone() {
                        if let N::P(_, r2) = d.n[r as usize].clone() {
                            // (l . (l . r2)) requires the inner pair to exist before k: reuse r with new left
                            if (l as usize) < r as usize {
                                d.n[r as usize] = N::P(l, r2);
                            }
                        }
                    }
                }
            }
            4 => {
                // swap children of a pair
                if let Some(k) = (i..len).chain(0..i).find(|k| matches!(&d.n[*k], N::P(..))) {
                    if let N::P(l, r) = d.n[k].clone() {
                        d.n[k] = N::P(r, l);
                    }
                }
            }
            _ => {
                // replace a leaf by a random small tree: only atoms can be replaced in place
                if let N::A(..) = &d.n[i] {
                    d.n[i] = N::A(gen_atom(t, 8), Repr::Nat);
                }
            }
        }
    }
}

fn countdown(t: &mut Tape, cfg: &ProgCfg) -> GenProg {
    // env = (self n acc); body: (a (i n (q . step) (q . done)) 1)
    // step: (a 2 (c 2 (c (- 5 (q . 1)) (c (OP 11 5) ()))))  ; done: 11
    let mut b = B { t, d: Dag::new(), env: vec![Ty::Any, Ty::Int, Ty::Int], cfg: *cfg, info: ProgInfo::default() };
    b.info.recursive = true;
    let p_self = b.atom(&[2]);
    let p_n = b.atom(&[5]);
    let p_acc = b.atom(&[11]);
    let one0 = b.atom(&[1]);
    let oneq = b.quote(one0);
    let dec = b.callc(17, &[p_n, oneq]);
    let opk = *b.t.pick(&[16u32, 18, 24, 25, 26, 14, 11]);
    // the extra operand may not refer to the accumulator (slot 2): squaring it on every
    // iteration makes operands grow exponentially and single cases take seconds
    b.env = vec![Ty::Any, Ty::Int];
    let extra = b.expr(Ty::Int, 1);
    b.env = vec![Ty::Any, Ty::Int, Ty::Int];
    let acc2 = b.callc(opk, &[p_acc, p_n, extra]);
    let nil = b.atom(&[]);
    let l3 = b.callc(4, &[acc2, nil]);
    let l2 = b.callc(4, &[dec, l3]);
    let l1 = b.callc(4, &[p_self, l2]);
    let step = b.callc(2, &[p_self, l1]);
    let qs = b.quote(step);
    let qd = b.quote(p_acc);
    // (q . 11) would return the literal 11; use the path instead through a second apply
    let _ = qd;
    let done = b.atom(&[11]);
    let qdone = b.quote(done);
    let sel = b.callc(3, &[p_n, qs, qdone]);
    let env1 = b.atom(&[1]);
    let _body = b.callc(2, &[sel, env1]);
    let prog = std::mem::take(&mut b.d);
    let info = std::mem::take(&mut b.info);
    let tt = b.t;
    // environment: (prog n acc)
    let mut env = Dag::new();
    let p = env.append(&prog);
    let n = tt.below(40);
    let nn = env.atom(&int_bytes(n as i128));
    let acc = env.atom(&int_bytes(gen_int(tt)));
    env.list(&[p, nn, acc]);
    GenProg { prog, env, info }
}

/// generate a program and an environment
pub fn gen_program(t: &mut Tape, cfg: &ProgCfg) -> GenProg {
    if t.chance(cfg.raw_pct, 100) {
        let tc = TreeCfg { max_nodes: 30, max_atom: 8, reprs: cfg.reprs, dup_atoms: 30, deep: 0 };
        let prog = gen_tree(t, &tc);
        let env = gen_tree(t, &tc);
        return GenProg { prog, env, info: ProgInfo { raw: true, ..Default::default() } };
    }
    if t.chance(1, 16) {
        return countdown(t, cfg);
    }
    let n_env = t.below(5) as usize;
    let mut env = Dag::new();
    let mut tys = Vec::new();
    let mut vals = Vec::new();
    let mut info = ProgInfo::default();
    for _ in 0..n_env {
        let ty = *t.pick(&[Ty::Int, Ty::Int, Ty::Bytes, Ty::Bool, Ty::List, Ty::Any, Ty::B32, Ty::G1, Ty::G2]);
        let ty = if !cfg.crypto && matches!(ty, Ty::G1 | Ty::G2) { Ty::Bytes } else { ty };
        if matches!(ty, Ty::Int | Ty::Bytes) && t.chance(cfg.env_big_pct, 100) {
            let n = 300 + if ty == Ty::Int { t.below(400) } else { t.below(3800) } as usize;
            let mut b = t.bytes(n);
            if ty == Ty::Int && t.flip() {
                b[0] &= 0x7f;
            }
            let r = if cfg.reprs { gen_repr(t) } else { Repr::Nat };
            vals.push(env.atom_r(&b, r));
            tys.push(ty);
            continue;
        }
        vals.push(gen_value(t, &mut env, ty, 2, cfg, &mut info));
        tys.push(ty);
    }
    env.list(&vals);
    let depth = 1 + t.below(cfg.max_depth);
    let ty = *t.pick(&[Ty::Int, Ty::Bytes, Ty::Bool, Ty::Any, Ty::List, Ty::Any]);
    let mut b = B { t, d: Dag::new(), env: tys, cfg: *cfg, info };
    let _root = b.expr(ty, depth);
    // the ((X) ...) form on top, rarely
    if b.t.chance(1, 20) {
        let root = b.d.root();
        // ((op) args...) : take a call (op . args) and turn the operator into (op)
        if let N::P(o, args) = b.d.n[root as usize].clone()
            && matches!(b.d.n[o as usize], N::A(..))
        {
            let term = if b.t.chance(1, 4) { b.d.atom(&[5]) } else { b.d.nil() };
            let wrapped = b.d.pair(o, term);
            b.d.pair(wrapped, args);
        }
    }
    let mut prog = std::mem::take(&mut b.d);
    let mut info = std::mem::take(&mut b.info);
    let t = b.t;
    if t.chance(cfg.mutate_pct, 100) {
        mutate_prog(t, &mut prog, &mut info);
    }
    GenProg { prog, env, info }
}

/// flag sets: empty, single flags, mempool mode, random subsets
pub fn gen_flags(t: &mut Tape) -> u32 {
    const SINGLE: [u32; 13] = [0x1, 0x2, 0x4, 0x8, 0x10, 0x20, 0x40, 0x100, 0x200, 0x400, 0x800, 0x1000, 0x2000];
    match t.weighted(&[4, 3, 2, 2, 2, 4]) {
        0 => 0,
        1 => *t.pick(&SINGLE),
        2 => crate::util::F_MEMPOOL,
        3 => crate::util::F_MEMPOOL | 0x40,
        4 => 0x2000 | if t.flip() { 0x0d00 } else { 0 } | if t.flip() { crate::util::F_MEMPOOL } else { 0 },
        _ => t.word() & crate::util::F_ALL,
    }
}

/// Wrap `inner` (run in environment `env`) in `depth` nested softfork guards of
/// extension `ext`, with the declared costs computed inside-out by pre-runs
/// under `flags`. Returns the program (to be run in any environment).
pub fn nest_guards(inner: &Dag, env: &Dag, depth: u32, ext: u32, flags: u32) -> Option<Dag> {
    let new_model = flags & 0x2000 != 0;
    let guard_cost: u64 = if new_model { 500 } else { 140 };
    // the pre-run must see the operator set that is in effect inside the guard: extension 1 enables keccak, and under the
    // new cost model extensions 0 and 1 are the grandfathered "everything before the hard fork" set (keccak included)
    let keccak_inside = ext == 1 || (new_model && ext == 0);
    let run_flags = (flags | if keccak_inside { 0x0100 } else { 0 }) & !0x0010; // no depth limit for the pre-runs
    let mut prog = inner.clone();
    let mut cur_env = env.clone();
    for _ in 0..depth {
        let cost = {
            let mut a = Allocator::new();
            let p = build(&mut a, &prog).ok()?;
            let e = build(&mut a, &cur_env).ok()?;
            let dialect = ChiaDialect::new(ClvmFlags::from_bits_truncate(run_flags));
            run_program(&mut a, &dialect, p, e, 100_000_000).ok()?.0
        };
        let mut d = Dag::new();
        let q = |d: &mut Dag, v: u32| {
            let one = d.atom(&[1]);
            d.pair(one, v)
        };
        let c0 = d.atom(&int_bytes((cost + guard_cost) as i128));
        let c = q(&mut d, c0);
        let e0 = d.atom(&int_bytes(ext as i128));
        let e = q(&mut d, e0);
        let p0 = d.append(&prog);
        let p = q(&mut d, p0);
        let v0 = d.append(&cur_env);
        let v = q(&mut d, v0);
        let op = d.atom(&[36]);
        let l = d.list(&[c, e, p, v]);
        d.pair(op, l);
        prog = d;
        let mut ne = Dag::new();
        ne.nil();
        cur_env = ne;
    }
    Some(prog)
}
