//! Glue between libFuzzer targets (/verif/fuzz) and the checks: a target decodes its input into a case, runs the
//! check's own test function (the oracle is inside the target) and calls `report`. A failure that is not a listed
//! known finding is written as a replay file and the process aborts, so libFuzzer keeps the input as an artifact.

use crate::engine::Verdict;
use serde::Serialize;

/// little-endian u32 words of the input (the choice tape); short tails are zero-padded
pub fn tape_words(data: &[u8]) -> Vec<u32> {
    data.chunks(4)
        .map(|c| {
            let mut w = [0u8; 4];
            w[..c.len()].copy_from_slice(c);
            // byte-reverse so that the first input byte is the most significant: small mutations of the leading byte change the choice
            u32::from_be_bytes(w)
        })
        .collect()
}

fn known_signatures(id: &str) -> Vec<String> {
    let Ok(s) = std::fs::read_to_string("/verif/known_findings.json") else { return vec![] };
    let Ok(v) = serde_json::from_str::<serde_json::Value>(&s) else { return vec![] };
    v.as_array()
        .map(|a| {
            a.iter()
                .filter(|e| e["property"] == id && e["status"] == "known")
                .filter_map(|e| e["signature"].as_str().map(|s| s.to_string()))
                .collect()
        })
        .unwrap_or_default()
}

/// what a fuzz target does with its input: decode into a case of some check and run that check's test function.
/// Returns (property, part, case as JSON, verdict); None when the input is outside the target's size bounds.
pub fn decode_and_test(target: &str, data: &[u8]) -> Option<(&'static str, &'static str, serde_json::Value, Verdict)> {
    use crate::checks::c15::BytesCase;
    use crate::checks::progcase::gen_prog_case;
    use crate::r#gen::programs::{OpSet, ProgCfg};
    use crate::tape::Tape;
    match target {
        "fz_classic" => {
            if data.len() > 4096 {
                return None;
            }
            let c = BytesCase { b: data.to_vec() };
            let v = crate::checks::c16::test_bytes(&c);
            Some(("C16", "gen", serde_json::to_value(&c).ok()?, v))
        }
        "fz_backrefs" => {
            if data.len() > 4096 {
                return None;
            }
            let c = BytesCase { b: data.to_vec() };
            let v = crate::checks::c18::test_bytes(&c);
            Some(("C18", "gen", serde_json::to_value(&c).ok()?, v))
        }
        "fz_serde2026" => {
            if data.is_empty() || data.len() > 4096 {
                return None;
            }
            let sel = data[0];
            let mut b = vec![0xfd, 0xff, 0x32, 0x30, 0x32, 0x36];
            b.extend_from_slice(&data[1..]);
            let max_atom_len = match (sel >> 1) % 4 {
                0 => 1 << 20,
                1 => 64,
                2 => 8,
                _ => 1024,
            };
            let c = crate::checks::c20::BlobCase { b, max_atom_len, strict: sel & 1 == 1 };
            let v = crate::checks::c20::test_blob(&c);
            Some(("C20", "blobs", serde_json::to_value(&c).ok()?, v))
        }
        "fz_run_program" => {
            if data.len() < 8 || data.len() > 2400 {
                return None;
            }
            let words = tape_words(&data[1..]);
            let mut t = Tape::new(&words);
            if data[0] & 1 == 0 {
                let cfg = ProgCfg { ops: OpSet::Classic, mutate_pct: 25, raw_pct: 6, reprs: false, crypto: false, max_atom: 80, ..Default::default() };
                let c = if data[0] & 2 == 0 { gen_prog_case(&mut t, &cfg) } else { crate::checks::c01::gen_repr_case(&mut t, &cfg) };
                let v = crate::checks::c01::test_prog(&c);
                Some(("C01", "programs", serde_json::to_value(&c).ok()?, v))
            } else {
                let cfg = ProgCfg { mutate_pct: 40, raw_pct: 15, reprs: true, ..Default::default() };
                let mut c = gen_prog_case(&mut t, &cfg);
                if data[0] & 2 != 0 {
                    c.flags = t.word();
                }
                let v = crate::checks::c25::test_prog(&c);
                Some(("C25", "programs", serde_json::to_value(&c).ok()?, v))
            }
        }
        "fz_operators" => {
            if data.len() < 4 || data.len() > 1200 {
                return None;
            }
            let words = tape_words(data);
            let mut t = Tape::new(&words);
            let c = crate::checks::c25::gen_op_case(&mut t);
            let v = crate::checks::c25::test_op(&c);
            Some(("C25", "operators", serde_json::to_value(&c).ok()?, v))
        }
        _ => None,
    }
}

/// body of every libFuzzer target
pub fn run_target(target: &str, data: &[u8]) {
    if let Some((id, part, case, v)) = decode_and_test(target, data) {
        report(id, part, &case, v);
    }
}

/// `vh fuzzcase <target> <artifact> <out.json>`: turn a libFuzzer artifact (raw input bytes) into a replay file without
/// running the test function in this process (the replay command does that with panic containment)
pub fn artifact_to_replay(target: &str, data: &[u8]) -> Option<serde_json::Value> {
    let r = crate::engine::guard(|| decode_and_test(target, data));
    match r {
        Ok(Some((id, part, case, v))) => Some(serde_json::json!({"property": id, "part": part, "message": v.fail.map(|f| f.msg).unwrap_or("(libFuzzer artifact)".into()), "case": case})),
        _ => None,
    }
}

pub fn report<C: Serialize>(id: &str, part: &str, case: &C, v: Verdict) {
    let Some(f) = v.fail else { return };
    if let Some(sig) = &f.sig {
        thread_local! { static KNOWN: std::cell::RefCell<Option<(String, Vec<String>)>> = const { std::cell::RefCell::new(None) }; }
        let is_known = KNOWN.with(|k| {
            let mut k = k.borrow_mut();
            if k.as_ref().map(|x| x.0.as_str()) != Some(id) {
                *k = Some((id.to_string(), known_signatures(id)));
            }
            k.as_ref().unwrap().1.contains(sig)
        });
        if is_known {
            return; // excluded by construction, the campaign continues behind it
        }
    }
    let dir = std::env::var("VERIF_FUZZ_OUT").unwrap_or("/verif/build/out".into());
    let _ = std::fs::create_dir_all(&dir);
    let path = format!("{dir}/{id}-fuzz-{}.json", std::process::id());
    let j = serde_json::json!({"property": id, "part": part, "message": f.msg, "case": case});
    let _ = std::fs::write(&path, serde_json::to_string_pretty(&j).unwrap());
    eprintln!("FUZZ-FAIL property={id} replay={path}\n{}", f.msg);
    std::process::abort();
}
