//! Counting global allocator: per-thread current/peak bytes, used by the
//! over-allocation oracle of the decoder checks.

use std::alloc::{GlobalAlloc, Layout, System};
use std::cell::Cell;

pub struct Counting;

thread_local! {
    static CUR: Cell<isize> = const { Cell::new(0) };
    static PEAK: Cell<isize> = const { Cell::new(0) };
}

#[inline]
fn add(n: isize) {
    let _ = CUR.try_with(|c| {
        let v = c.get() + n;
        c.set(v);
        let _ = PEAK.try_with(|p| {
            if v > p.get() {
                p.set(v)
            }
        });
    });
}

unsafe impl GlobalAlloc for Counting {
    unsafe fn alloc(&self, l: Layout) -> *mut u8 {
        let p = unsafe { System.alloc(l) };
        if !p.is_null() {
            add(l.size() as isize);
        }
        p
    }
    unsafe fn dealloc(&self, p: *mut u8, l: Layout) {
        unsafe { System.dealloc(p, l) };
        add(-(l.size() as isize));
    }
    unsafe fn alloc_zeroed(&self, l: Layout) -> *mut u8 {
        let p = unsafe { System.alloc_zeroed(l) };
        if !p.is_null() {
            add(l.size() as isize);
        }
        p
    }
    unsafe fn realloc(&self, p: *mut u8, l: Layout, new: usize) -> *mut u8 {
        let q = unsafe { System.realloc(p, l, new) };
        if !q.is_null() {
            add(new as isize - l.size() as isize);
        }
        q
    }
}

/// run `f` and return (result, peak extra bytes allocated on this thread while it ran)
pub fn measure<T>(f: impl FnOnce() -> T) -> (T, usize) {
    let base = CUR.with(|c| c.get());
    PEAK.with(|p| p.set(base));
    let r = f();
    let peak = PEAK.with(|p| p.get());
    (r, (peak - base).max(0) as usize)
}
