//! Documented operator cost formulas (docs/cost-model.md, docs/sha256tree.md and
//! the constant/comment blocks of the operator sources), one function per
//! operator and cost model. Arithmetic on values uses num_bigint purely as a
//! value type. Returns None when the call is outside the success domain the
//! formula describes.

use crate::dag::{Dag, N};
use num_bigint::{BigInt, Sign};
use num_integer::Integer;
use num_traits::{One, Signed, Zero};

const MALLOC: u128 = 10;

fn int(b: &[u8]) -> BigInt {
    if b.is_empty() { BigInt::zero() } else { BigInt::from_signed_bytes_be(b) }
}

/// magnitude bytes: ceil(bit_length(|v|) / 8)
pub fn limbs(v: &BigInt) -> u128 {
    (v.bits() as u128).div_ceil(8)
}

/// minimal two's-complement length of a value
pub fn enc_len(v: &BigInt) -> u128 {
    let (s, mag) = v.to_bytes_be();
    crate::checks::alloc_sm::bigint_min_bytes(s == Sign::Minus, &mag).len() as u128
}

/// argument list of a dag as node indices (stops at the first non-pair)
pub fn arg_nodes(d: &Dag) -> Vec<u32> {
    let mut out = Vec::new();
    let mut cur = d.root();
    while let N::P(l, r) = &d.n[cur as usize] {
        out.push(*l);
        cur = *r;
    }
    out
}

fn atoms(d: &Dag, nodes: &[u32]) -> Option<Vec<Vec<u8>>> {
    nodes
        .iter()
        .map(|i| match &d.n[*i as usize] {
            N::A(b, _) => Some(b.clone()),
            _ => None,
        })
        .collect()
}

/// expanded-tree statistics of a dag node: (pairs, atoms, atom bytes)
fn tree_stats(d: &Dag, root: u32) -> (u128, u128, u128) {
    let mut memo: Vec<(u128, u128, u128)> = Vec::with_capacity(d.n.len());
    for n in &d.n {
        memo.push(match n {
            N::A(b, _) => (0, 1, b.len() as u128),
            N::P(l, r) => {
                let a = memo[*l as usize];
                let b = memo[*r as usize];
                (1 + a.0 + b.0, a.1 + b.1, a.2 + b.2)
            }
        });
    }
    memo[root as usize]
}

const DST_LEN: u128 = 43;

/// cost of a successful call of `op` on the argument list `args`
pub fn op_cost(op: &str, args: &Dag, new: bool) -> Option<u64> {
    let nodes = arg_nodes(args);
    let n = nodes.len() as u128;
    let at = atoms(args, &nodes);
    let lens = || -> Option<Vec<u128>> { Some(at.as_ref()?.iter().map(|b| b.len() as u128).collect()) };
    let sum = || -> Option<u128> { Some(lens()?.iter().sum()) };
    let c: u128 = match op {
        "if" => {
            if n != 3 {
                return None;
            }
            if new { 330 } else { 33 }
        }
        "cons" => {
            if n != 2 {
                return None;
            }
            50
        }
        "first" | "rest" => {
            if n != 1 || !matches!(args.n[nodes[0] as usize], N::P(..)) {
                return None;
            }
            30
        }
        "listp" => {
            if n != 1 {
                return None;
            }
            if new { 200 } else { 19 }
        }
        "eq" | "gr_bytes" => {
            let l = lens()?;
            if l.len() != 2 {
                return None;
            }
            117 + l[0] + l[1]
        }
        "sha256" => {
            let s = sum()?;
            if new { 1000 + 160 * n + 6 * s + 32 * MALLOC } else { 87 + 134 * n + 2 * s + 32 * MALLOC }
        }
        "keccak256" => {
            let s = sum()?;
            if new { 2350 + 100 * n + 10 * s + 32 * MALLOC } else { 50 + 160 * n + 2 * s + 32 * MALLOC }
        }
        "substr" => {
            let a = at.as_ref()?;
            if !(2..=3).contains(&a.len()) {
                return None;
            }
            let len = a[0].len() as i128;
            let idx = |b: &Vec<u8>| -> Option<i128> {
                if b.len() > 4 {
                    return None;
                }
                let v = int(b);
                i128::try_from(v).ok()
            };
            let s = idx(&a[1])?;
            let e = if a.len() == 3 { idx(&a[2])? } else { len };
            if s < 0 || e < 0 || e > len || e < s {
                return None;
            }
            if new { 2000 } else { 1 }
        }
        "strlen" => {
            let l = lens()?;
            if l.len() != 1 {
                return None;
            }
            173 + l[0] + MALLOC * enc_len(&BigInt::from(l[0] as u64))
        }
        "concat" => {
            let s = sum()?;
            142 + 135 * n + 3 * s + MALLOC * s
        }
        "add" | "subtract" => {
            let a = at.as_ref()?;
            let mut acc = BigInt::zero();
            let mut c: u128 = 99;
            for (k, b) in a.iter().enumerate() {
                let l = b.len() as u128;
                if new {
                    c += 500 + 4 * limbs(&acc).max(l);
                } else {
                    c += 320 + 3 * l;
                }
                let v = int(b);
                if op == "add" || k == 0 {
                    acc += v;
                } else {
                    acc -= v;
                }
            }
            c + MALLOC * enc_len(&acc)
        }
        "multiply" => {
            let a = at.as_ref()?;
            let mut c: u128 = if new { 2000 } else { 92 };
            let div: u128 = if new { 16 } else { 128 };
            let mut acc = BigInt::one();
            let mut l0: u128 = 0;
            for (k, b) in a.iter().enumerate() {
                let v = int(b);
                if k == 0 {
                    acc = v;
                    l0 = b.len() as u128;
                    if new {
                        c += 6 * l0;
                    }
                    continue;
                }
                let l1 = b.len() as u128;
                c += 885 + 6 * (l0 + l1) + (l0 * l1) / div;
                acc *= v;
                l0 = limbs(&acc);
            }
            c + MALLOC * enc_len(&acc)
        }
        "div" | "divmod" | "mod" => {
            let a = at.as_ref()?;
            if a.len() != 2 {
                return None;
            }
            let (x, y) = (int(&a[0]), int(&a[1]));
            if y.is_zero() {
                return None;
            }
            let (l0, l1) = (a[0].len() as u128, a[1].len() as u128);
            let base = if new {
                1000 + 50 * (l0 + l1) + (l0 * l1) / 10
            } else if op == "divmod" {
                1116 + 6 * (l0 + l1)
            } else {
                988 + 4 * (l0 + l1)
            };
            let (q, r) = x.div_mod_floor(&y);
            base + MALLOC
                * match op {
                    "div" => enc_len(&q),
                    "mod" => enc_len(&r),
                    _ => enc_len(&q) + enc_len(&r),
                }
        }
        "gr" => {
            let l = lens()?;
            if l.len() != 2 {
                return None;
            }
            if new { 1000 + 4 * (l[0] + l[1]) } else { 498 + 2 * (l[0] + l[1]) }
        }
        "ash" | "lsh" => {
            let a = at.as_ref()?;
            if a.len() != 2 || a[1].len() > 4 {
                return None;
            }
            let s = i64::try_from(int(&a[1])).ok()?;
            if !(-65535..=65535).contains(&s) {
                return None;
            }
            let v = if op == "ash" { int(&a[0]) } else { BigInt::from_bytes_be(Sign::Plus, &a[0]) };
            let r = if s > 0 { v << (s as usize) } else { v >> ((-s) as usize) };
            let l0 = a[0].len() as u128;
            let base = if op == "ash" { 596 } else { 277 };
            base + 3 * (l0 + limbs(&r)) + MALLOC * enc_len(&r)
        }
        "logand" | "logior" | "logxor" => {
            let a = at.as_ref()?;
            let mut acc: BigInt = if op == "logand" { BigInt::from(-1) } else { BigInt::zero() };
            let mut c: u128 = 100;
            for b in a {
                let l = b.len() as u128;
                let v = int(b);
                c += 264 + 3 * if new { l.max(limbs(&acc)) } else { l };
                acc = match op {
                    "logand" => acc & v,
                    "logior" => acc | v,
                    _ => acc ^ v,
                };
            }
            c + MALLOC * enc_len(&acc)
        }
        "lognot" => {
            let a = at.as_ref()?;
            if a.len() != 1 {
                return None;
            }
            let v = !int(&a[0]);
            331 + 3 * a[0].len() as u128 + MALLOC * enc_len(&v)
        }
        "not" => {
            if n != 1 {
                return None;
            }
            200
        }
        "any" | "all" => 200 + 300 * n,
        "point_add" | "g1_subtract" => {
            lens()?;
            101094 + 1343980 * n + 48 * MALLOC
        }
        "pubkey_for_exp" => {
            let l = lens()?;
            if l.len() != 1 {
                return None;
            }
            1325730 + 38 * l[0] + 48 * MALLOC
        }
        "coinid" => {
            if n != 3 {
                return None;
            }
            (if new { 1000 + 160 * 3 + 6 * 72 - 153 } else { 87 + 134 * 3 + 2 * 72 - 153 }) + 32 * MALLOC
        }
        "g1_multiply" => {
            let l = lens()?;
            if l.len() != 2 {
                return None;
            }
            (if new { 1_900_000 + 24 * l[1] } else { 705500 + 10 * l[1] }) + 48 * MALLOC
        }
        "g2_multiply" => {
            let l = lens()?;
            if l.len() != 2 {
                return None;
            }
            (if new { 3_000_000 + 23 * l[1] } else { 2100000 + 5 * l[1] }) + 96 * MALLOC
        }
        "g1_negate" => 1396 - 480 + 48 * MALLOC,
        "g2_negate" => 2164 - 960 + 96 * MALLOC,
        "g2_add" | "g2_subtract" => {
            lens()?;
            80000 + 1950000 * n + 96 * MALLOC
        }
        "g1_map" | "g2_map" => {
            let l = lens()?;
            if !(1..=2).contains(&l.len()) {
                return None;
            }
            let dst = if l.len() == 2 { l[1] } else { DST_LEN };
            let (base, out) = if op == "g1_map" { (if new { 700_000 } else { 195000 }, 48) } else { (if new { 2_700_000 } else { 815000 }, 96) };
            base + if new { 3 * l[0] + 2 * dst } else { 4 * l[0] + 4 * dst } + out * MALLOC
        }
        "pairing_identity" => {
            if n % 2 != 0 {
                return None;
            }
            let pairs = n / 2;
            if new { 1_000_000 + 5_000_000 * pairs } else { 3000000 + 1200000 * pairs }
        }
        "bls_verify" => {
            let l = lens()?;
            if l.is_empty() || (l.len() - 1) % 2 != 0 {
                return None;
            }
            let mut c: u128 = if new { 1_000_000 } else { 3000000 };
            for k in 0..(l.len() - 1) / 2 {
                let m = l[2 + 2 * k];
                c += if new { 5_000_000 + 3 * m + 2 * DST_LEN } else { 1200000 + 4 * m + 4 * DST_LEN };
            }
            c
        }
        "modpow" => {
            let a = at.as_ref()?;
            if a.len() != 3 {
                return None;
            }
            let (b, e, m) = (a[0].len() as u128, a[1].len() as u128, a[2].len() as u128);
            let (bv, ev, mv) = (int(&a[0]), int(&a[1]), int(&a[2]));
            if ev.is_negative() || mv.is_zero() {
                return None;
            }
            let base = if new { 17000 + e * 8 * (m * m + 4000) + b * m } else { 17000 + 38 * b + 3 * e * e + 21 * m * m };
            let r = bv.modpow(&ev, &mv);
            base + MALLOC * enc_len(&r)
        }
        "sha256tree" => {
            if n != 1 {
                return None;
            }
            let (pairs, atoms, bytes) = tree_stats(args, nodes[0]);
            let per_byte: u128 = if new { 6 } else { 2 };
            270 + 460 * pairs + per_byte * (bytes + atoms) + 32 * MALLOC
        }
        "secp256k1_verify" => 1300000,
        "secp256r1_verify" => 1850000,
        _ => return None,
    };
    u64::try_from(c).ok()
}

/// names used in op-tests files -> names used here
pub fn optest_name(op: &str) -> Option<&'static str> {
    Some(match op {
        "i" => "if",
        "c" => "cons",
        "f" => "first",
        "r" => "rest",
        "l" => "listp",
        "=" => "eq",
        ">s" => "gr_bytes",
        "sha256" => "sha256",
        "+" => "add",
        "-" => "subtract",
        "*" => "multiply",
        "/" => "div",
        "divmod" => "divmod",
        "%" => "mod",
        "substr" => "substr",
        "strlen" => "strlen",
        "point_add" | "g1_add" => "point_add",
        "pubkey_for_exp" => "pubkey_for_exp",
        "concat" => "concat",
        ">" => "gr",
        "logand" => "logand",
        "logior" => "logior",
        "logxor" => "logxor",
        "lognot" => "lognot",
        "ash" => "ash",
        "lsh" => "lsh",
        "not" => "not",
        "any" => "any",
        "all" => "all",
        "coinid" => "coinid",
        "g1_subtract" => "g1_subtract",
        "g1_multiply" => "g1_multiply",
        "g1_negate" | "g1_negate_strict" => "g1_negate",
        "g2_add" => "g2_add",
        "g2_subtract" => "g2_subtract",
        "g2_multiply" => "g2_multiply",
        "g2_negate" | "g2_negate_strict" => "g2_negate",
        "g1_map" => "g1_map",
        "g2_map" => "g2_map",
        "bls_pairing_identity" => "pairing_identity",
        "bls_verify" => "bls_verify",
        "secp256k1_verify" | "secp256k1_verify_64" => "secp256k1_verify",
        "secp256r1_verify" | "secp256r1_verify_65" => "secp256r1_verify",
        "modpow" => "modpow",
        "keccak256" => "keccak256",
        "sha256tree" => "sha256tree",
        _ => return None,
    })
}

/// (file, new cost model) pairs of the pinned vectors
pub const VECTOR_FILES: [(&str, bool); 33] = [
    ("test-core-ops", false),
    ("test-core-ops-v2", true),
    ("test-more-ops", false),
    ("test-more-ops-v2", true),
    ("test-bls-ops", false),
    ("test-blspy-g1", false),
    ("test-blspy-g1-v2", true),
    ("test-blspy-g2", false),
    ("test-blspy-g2-v2", true),
    ("test-blspy-hash", false),
    ("test-blspy-hash-v2", true),
    ("test-blspy-pairing", false),
    ("test-blspy-pairing-v2", true),
    ("test-blspy-verify", false),
    ("test-blspy-verify-v2", true),
    ("test-bls-zk", false),
    ("test-bls-zk-v2", true),
    ("test-secp-verify", false),
    ("test-secp256k1", false),
    ("test-secp256r1", false),
    ("test-modpow", false),
    ("test-modpow-v2", true),
    ("test-sha256", false),
    ("test-sha256-v2", true),
    ("test-sha256tree", false),
    ("test-sha256tree-v2", true),
    ("test-sha256tree-hash", false),
    ("test-sha256tree-hash-v2", true),
    ("test-keccak256", false),
    ("test-keccak256-v2", true),
    ("test-keccak256-generated", false),
    ("test-keccak256-generated-v2", true),
    ("test-secp-verify", true),
];

/// every `=> value | cost` line of the pinned vectors must be reproduced
pub fn calibrate() -> Result<usize, String> {
    let mut ok = 0;
    for (file, new) in VECTOR_FILES {
        for t in crate::model::optests::parse_file(file) {
            let Some((_, cost)) = &t.expect else { continue };
            let Some(name) = optest_name(&t.op) else { continue };
            match op_cost(name, &t.args, new) {
                Some(c) if c == *cost => ok += 1,
                other => {
                    return Err(format!("cost model disagrees with pinned vector {file}: `{}` (model {other:?}, vector {cost})", t.line.chars().take(300).collect::<String>()));
                }
            }
        }
    }
    if ok < 500 { Err(format!("only {ok} pinned vectors found")) } else { Ok(ok) }
}

#[cfg(test)]
mod tests {
    #[test]
    fn calibration() {
        match super::calibrate() {
            Ok(n) => println!("calibrated on {n} vectors"),
            Err(e) => panic!("{e}"),
        }
    }
}
