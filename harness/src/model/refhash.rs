//! Independent SHA-256 (FIPS 180-4), Keccak-256 and the recursive CLVM tree
//! hash. Nothing here calls into clvmr or its hashing crates.

use crate::dag::{Dag, N};

const K: [u32; 64] = [
    0x428a2f98, 0x71374491, 0xb5c0fbcf, 0xe9b5dba5, 0x3956c25b, 0x59f111f1, 0x923f82a4, 0xab1c5ed5,
    0xd807aa98, 0x12835b01, 0x243185be, 0x550c7dc3, 0x72be5d74, 0x80deb1fe, 0x9bdc06a7, 0xc19bf174,
    0xe49b69c1, 0xefbe4786, 0x0fc19dc6, 0x240ca1cc, 0x2de92c6f, 0x4a7484aa, 0x5cb0a9dc, 0x76f988da,
    0x983e5152, 0xa831c66d, 0xb00327c8, 0xbf597fc7, 0xc6e00bf3, 0xd5a79147, 0x06ca6351, 0x14292967,
    0x27b70a85, 0x2e1b2138, 0x4d2c6dfc, 0x53380d13, 0x650a7354, 0x766a0abb, 0x81c2c92e, 0x92722c85,
    0xa2bfe8a1, 0xa81a664b, 0xc24b8b70, 0xc76c51a3, 0xd192e819, 0xd6990624, 0xf40e3585, 0x106aa070,
    0x19a4c116, 0x1e376c08, 0x2748774c, 0x34b0bcb5, 0x391c0cb3, 0x4ed8aa4a, 0x5b9cca4f, 0x682e6ff3,
    0x748f82ee, 0x78a5636f, 0x84c87814, 0x8cc70208, 0x90befffa, 0xa4506ceb, 0xbef9a3f7, 0xc67178f2,
];

pub struct Sha256 {
    h: [u32; 8],
    buf: Vec<u8>,
    len: u64,
}

impl Default for Sha256 {
    fn default() -> Self {
        Self::new()
    }
}

impl Sha256 {
    pub fn new() -> Self {
        Sha256 {
            h: [
                0x6a09e667, 0xbb67ae85, 0x3c6ef372, 0xa54ff53a, 0x510e527f, 0x9b05688c, 0x1f83d9ab,
                0x5be0cd19,
            ],
            buf: Vec::with_capacity(64),
            len: 0,
        }
    }
    fn block(&mut self, b: &[u8]) {
        let mut w = [0u32; 64];
        for i in 0..16 {
            w[i] = u32::from_be_bytes([b[4 * i], b[4 * i + 1], b[4 * i + 2], b[4 * i + 3]]);
        }
        for i in 16..64 {
            let s0 = w[i - 15].rotate_right(7) ^ w[i - 15].rotate_right(18) ^ (w[i - 15] >> 3);
            let s1 = w[i - 2].rotate_right(17) ^ w[i - 2].rotate_right(19) ^ (w[i - 2] >> 10);
            w[i] = w[i - 16]
                .wrapping_add(s0)
                .wrapping_add(w[i - 7])
                .wrapping_add(s1);
        }
        let [mut a, mut b2, mut c, mut d, mut e, mut f, mut g, mut h] = self.h;
        for i in 0..64 {
            let s1 = e.rotate_right(6) ^ e.rotate_right(11) ^ e.rotate_right(25);
            let ch = (e & f) ^ (!e & g);
            let t1 = h
                .wrapping_add(s1)
                .wrapping_add(ch)
                .wrapping_add(K[i])
                .wrapping_add(w[i]);
            let s0 = a.rotate_right(2) ^ a.rotate_right(13) ^ a.rotate_right(22);
            let maj = (a & b2) ^ (a & c) ^ (b2 & c);
            let t2 = s0.wrapping_add(maj);
            h = g;
            g = f;
            f = e;
            e = d.wrapping_add(t1);
            d = c;
            c = b2;
            b2 = a;
            a = t1.wrapping_add(t2);
        }
        for (x, y) in self.h.iter_mut().zip([a, b2, c, d, e, f, g, h]) {
            *x = x.wrapping_add(y);
        }
    }
    pub fn update(&mut self, mut data: &[u8]) {
        self.len += data.len() as u64;
        if !self.buf.is_empty() {
            let need = 64 - self.buf.len();
            let take = need.min(data.len());
            self.buf.extend_from_slice(&data[..take]);
            data = &data[take..];
            if self.buf.len() == 64 {
                let b = std::mem::take(&mut self.buf);
                self.block(&b);
                self.buf = b;
                self.buf.clear();
            }
        }
        while data.len() >= 64 {
            let (b, rest) = data.split_at(64);
            self.block(b);
            data = rest;
        }
        self.buf.extend_from_slice(data);
    }
    pub fn finalize(mut self) -> [u8; 32] {
        let bitlen = self.len.wrapping_mul(8);
        let mut pad = vec![0x80u8];
        while (self.buf.len() + pad.len()) % 64 != 56 {
            pad.push(0);
        }
        pad.extend_from_slice(&bitlen.to_be_bytes());
        let l = self.len;
        self.update(&pad);
        self.len = l;
        debug_assert!(self.buf.is_empty());
        let mut out = [0u8; 32];
        for (i, v) in self.h.iter().enumerate() {
            out[4 * i..4 * i + 4].copy_from_slice(&v.to_be_bytes());
        }
        out
    }
}

pub fn sha256(parts: &[&[u8]]) -> [u8; 32] {
    let mut s = Sha256::new();
    for p in parts {
        s.update(p);
    }
    s.finalize()
}

/// tree hash of every node of a dag (memoised per node, so sharing is cheap)
pub fn tree_hash_all(d: &Dag) -> Vec<[u8; 32]> {
    let mut h: Vec<[u8; 32]> = Vec::with_capacity(d.n.len());
    for n in &d.n {
        h.push(match n {
            N::A(b, _) => sha256(&[&[1], b]),
            N::P(l, r) => sha256(&[&[2], &h[*l as usize], &h[*r as usize]]),
        });
    }
    h
}

pub fn tree_hash(d: &Dag) -> [u8; 32] {
    *tree_hash_all(d).last().unwrap()
}

// ---------------------------------------------------------------- keccak --

const RC: [u64; 24] = [
    0x0000000000000001, 0x0000000000008082, 0x800000000000808a, 0x8000000080008000,
    0x000000000000808b, 0x0000000080000001, 0x8000000080008081, 0x8000000000008009,
    0x000000000000008a, 0x0000000000000088, 0x0000000080008009, 0x000000008000000a,
    0x000000008000808b, 0x800000000000008b, 0x8000000000008089, 0x8000000000008003,
    0x8000000000008002, 0x8000000000000080, 0x000000000000800a, 0x800000008000000a,
    0x8000000080008081, 0x8000000000008080, 0x0000000080000001, 0x8000000080008008,
];

fn keccak_f(s: &mut [u64; 25]) {
    for rc in RC {
        // theta
        let mut c = [0u64; 5];
        for x in 0..5 {
            c[x] = s[x] ^ s[x + 5] ^ s[x + 10] ^ s[x + 15] ^ s[x + 20];
        }
        for x in 0..5 {
            let d = c[(x + 4) % 5] ^ c[(x + 1) % 5].rotate_left(1);
            for y in 0..5 {
                s[x + 5 * y] ^= d;
            }
        }
        // rho + pi
        let mut b = [0u64; 25];
        let (mut x, mut y) = (1usize, 0usize);
        b[0] = s[0];
        for t in 0..24u32 {
            let r = ((t + 1) * (t + 2) / 2) % 64;
            // lane (x,y) rotates by r and moves to (y, 2x+3y)
            let (nx, ny) = (y, (2 * x + 3 * y) % 5);
            b[nx + 5 * ny] = s[x + 5 * y].rotate_left(r);
            x = nx;
            y = ny;
        }
        // chi
        for y in 0..5 {
            for x in 0..5 {
                s[x + 5 * y] = b[x + 5 * y] ^ (!b[(x + 1) % 5 + 5 * y] & b[(x + 2) % 5 + 5 * y]);
            }
        }
        // iota
        s[0] ^= rc;
    }
}

/// Keccak-256 (original padding 0x01, as used by Ethereum)
pub fn keccak256(parts: &[&[u8]]) -> [u8; 32] {
    let rate = 136usize;
    let mut data: Vec<u8> = Vec::new();
    for p in parts {
        data.extend_from_slice(p);
    }
    data.push(0x01);
    while data.len() % rate != 0 {
        data.push(0);
    }
    let last = data.len() - 1;
    data[last] |= 0x80;
    let mut s = [0u64; 25];
    for blk in data.chunks(rate) {
        for i in 0..rate / 8 {
            s[i] ^= u64::from_le_bytes(blk[8 * i..8 * i + 8].try_into().unwrap());
        }
        keccak_f(&mut s);
    }
    let mut out = [0u8; 32];
    for i in 0..4 {
        out[8 * i..8 * i + 8].copy_from_slice(&s[i].to_le_bytes());
    }
    out
}

#[cfg(test)]
mod tests {
    use super::*;
    #[test]
    fn vectors() {
        assert_eq!(
            hex::encode(sha256(&[b"abc"])),
            "ba7816bf8f01cfea414140de5dae2223b00361a396177a9cb410ff61f20015ad"
        );
        assert_eq!(
            hex::encode(sha256(&[b""])),
            "e3b0c44298fc1c149afbf4c8996fb92427ae41e4649b934ca495991b7852b855"
        );
        assert_eq!(
            hex::encode(keccak256(&[b""])),
            "c5d2460186f7233c927e7db2dcc703c0e500b653ca82273b7bfad8045d85a470"
        );
        assert_eq!(
            hex::encode(keccak256(&[b"abc"])),
            "4e03657aea45a94fc7d47ba826c8d667c0d1e6e33a64a036ec44f58fa12d6c45"
        );
        let long = vec![0x61u8; 1000];
        assert_eq!(
            hex::encode(sha256(&[&long])),
            "41edece42d63e8d9bf515a9ba6932e1c20cbc9f5a5d134645adb5db1b9737ea3"
        );
    }
}
