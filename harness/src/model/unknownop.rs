//! The published unknown-opcode cost rule (comment block in more_ops.rs above
//! op_unknown, docs), transcribed over u128 so that nothing wraps.

#[derive(Debug, Clone, PartialEq, Eq)]
pub enum Unk {
    Ok(u64),
    Reserved,
    TooLong,
    PairArg,
    BaseOverBudget,
    ProductTooLarge,
}

/// `args`: Some(len) for an atom argument, None for a pair
pub fn unknown_cost(op: &[u8], args: &[Option<u64>], new_model: bool, budget: u64) -> Unk {
    unknown_cost_ex(op, args, new_model, budget).0
}

/// also returns the exact (unbounded) product when it could be computed
pub fn unknown_cost_ex(op: &[u8], args: &[Option<u64>], new_model: bool, budget: u64) -> (Unk, Option<u128>) {
    let mut product_out: Option<u128> = None;
    let r = unknown_cost_inner(op, args, new_model, budget, &mut product_out);
    (r, product_out)
}

fn unknown_cost_inner(op: &[u8], args: &[Option<u64>], new_model: bool, budget: u64, product_out: &mut Option<u128>) -> Unk {
    if op.is_empty() || (op.len() >= 2 && op[0] == 0xff && op[1] == 0xff) {
        return Unk::Reserved;
    }
    if op.len() > 5 {
        return Unk::TooLong;
    }
    let func = op[op.len() - 1] >> 6;
    let mut multiplier: u128 = 0;
    for b in &op[..op.len() - 1] {
        multiplier = (multiplier << 8) | *b as u128;
    }
    let base: u128 = match func {
        0 => 1,
        1 => {
            let mut c: u128 = 99;
            let mut acc: u128 = 0;
            for a in args {
                let Some(l) = a else { return Unk::PairArg };
                let l = *l as u128;
                if new_model {
                    acc = acc.max(l);
                    c += 500 + 4 * acc;
                } else {
                    c += 320 + 3 * l;
                }
            }
            c
        }
        2 => {
            let mut c: u128 = if new_model { 2000 } else { 92 };
            let div: u128 = if new_model { 16 } else { 128 };
            let mut l0: u128 = 0;
            for (k, a) in args.iter().enumerate() {
                let Some(l) = a else { return Unk::PairArg };
                let l = *l as u128;
                if k == 0 {
                    l0 = l;
                    if new_model {
                        c += 6 * l0;
                    }
                    continue;
                }
                c += 885 + 6 * (l0 + l) + (l0 * l) / div;
                l0 += l;
            }
            c
        }
        _ => {
            let mut c: u128 = 142;
            for a in args {
                let Some(l) = a else { return Unk::PairArg };
                c += 135 + 3 * (*l as u128);
            }
            c
        }
    };
    if base > budget as u128 {
        return Unk::BaseOverBudget;
    }
    let product = base * (multiplier + 1);
    *product_out = Some(product);
    if product > u32::MAX as u128 {
        return Unk::ProductTooLarge;
    }
    Unk::Ok(product as u64)
}
