pub mod refhash;
pub mod refserde;
