pub mod refserde;
