pub mod costmodel;
pub mod optests;
pub mod refhash;
pub mod refserde;
pub mod refvm;
pub mod unknownop;
pub mod refcrypto;
pub mod h2c;
