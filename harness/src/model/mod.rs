pub mod costmodel;
pub mod optests;
pub mod refhash;
pub mod refserde;
pub mod refvm;
pub mod unknownop;
