//! Independent codecs written from the format documents
//! (docs/compressed-serialization.md, docs/serde-2026.md and the classic CLVM
//! serialization description). Nothing here calls into clvmr.

use crate::dag::{Dag, N, Repr};

pub const MAX_ATOM: u64 = 0x4_0000_0000; // sizes must be < 2^34

/// length prefix for an atom of `len` bytes whose first byte is `first`
pub fn encode_prefix(first: u8, len: u64, out: &mut Vec<u8>) -> bool {
    if len == 0 {
        out.push(0x80);
    } else if len == 1 && first <= 0x7f {
        // the byte is its own encoding
    } else if len < 0x40 {
        out.push(0x80 | len as u8);
    } else if len < 0x2000 {
        out.push(0xc0 | (len >> 8) as u8);
        out.push(len as u8);
    } else if len < 0x10_0000 {
        out.push(0xe0 | (len >> 16) as u8);
        out.push((len >> 8) as u8);
        out.push(len as u8);
    } else if len < 0x800_0000 {
        out.push(0xf0 | (len >> 24) as u8);
        out.push((len >> 16) as u8);
        out.push((len >> 8) as u8);
        out.push(len as u8);
    } else if len < MAX_ATOM {
        out.push(0xf8 | (len >> 32) as u8);
        out.push((len >> 24) as u8);
        out.push((len >> 16) as u8);
        out.push((len >> 8) as u8);
        out.push(len as u8);
    } else {
        return false;
    }
    true
}

pub fn encode_atom(b: &[u8], out: &mut Vec<u8>) {
    let ok = encode_prefix(b.first().copied().unwrap_or(0), b.len() as u64, out);
    assert!(ok);
    out.extend_from_slice(b);
}

pub fn atom_ser_len(b: &[u8]) -> u64 {
    let mut v = Vec::new();
    encode_prefix(b.first().copied().unwrap_or(0), b.len() as u64, &mut v);
    v.len() as u64 + b.len() as u64
}

/// classic serialization of a dag (expanded as a tree); `limit` bounds the
/// output (None is returned when exceeded)
pub fn encode_classic(d: &Dag, limit: usize) -> Option<Vec<u8>> {
    let mut out = Vec::new();
    let mut st = vec![d.root()];
    while let Some(i) = st.pop() {
        match &d.n[i as usize] {
            N::A(b, _) => encode_atom(b, &mut out),
            N::P(l, r) => {
                out.push(0xff);
                st.push(*r);
                st.push(*l);
            }
        }
        if out.len() > limit {
            return None;
        }
    }
    Some(out)
}

/// classic serialized length of the expanded tree (saturating)
pub fn classic_len(d: &Dag) -> u64 {
    let mut lens: Vec<u64> = Vec::with_capacity(d.n.len());
    for n in &d.n {
        lens.push(match n {
            N::A(b, _) => atom_ser_len(b),
            N::P(l, r) => 1u64
                .saturating_add(lens[*l as usize])
                .saturating_add(lens[*r as usize]),
        });
    }
    *lens.last().unwrap()
}

#[derive(Debug, Clone, PartialEq, Eq)]
pub enum DecErr {
    Truncated,
    BadPrefix,
    BadPath,
    Other(&'static str),
}

/// Reads an atom header starting at `pos` (first byte already known not to be
/// 0xff / 0xfe handled by caller). Returns (start of payload, payload len).
/// `canonical` is set to false when the prefix is longer than necessary or a
/// single byte < 0x80 is length-prefixed.
fn read_atom_header(b: &[u8], pos: usize, canonical: &mut bool) -> Result<(usize, usize), DecErr> {
    let first = *b.get(pos).ok_or(DecErr::Truncated)?;
    if first <= 0x7f {
        return Ok((pos, 1));
    }
    if first == 0x80 {
        return Ok((pos + 1, 0));
    }
    let ones = first.leading_ones() as usize;
    // 0xff and 0xfe are markers and 7 leading ones is not a valid size prefix
    if ones > 6 {
        return Err(DecErr::BadPrefix);
    }
    if pos + ones > b.len() {
        return Err(DecErr::Truncated);
    }
    let mut size: u64 = (first & (0xffu8 >> ones)) as u64;
    for k in 1..ones {
        size = (size << 8) | b[pos + k] as u64;
    }
    if size >= MAX_ATOM {
        return Err(DecErr::BadPrefix);
    }
    let start = pos + ones;
    if (b.len() - start) as u64 >= size {
        // minimality of the prefix
        let min = match ones {
            1 => 1u64,
            2 => 0x40,
            3 => 0x2000,
            4 => 0x10_0000,
            5 => 0x800_0000,
            _ => 0x4_0000_0000,
        };
        if size < min {
            *canonical = false;
        }
        if size == 1 && b[start] <= 0x7f {
            *canonical = false;
        }
        if size == 0 && ones == 1 {
            // 0x80 handled above; unreachable
        }
        Ok((start, size as usize))
    } else {
        Err(DecErr::Truncated)
    }
}

pub struct Decoded {
    pub dag: Dag,
    pub consumed: usize,
    /// every atom used its minimal encoding
    pub canonical_atoms: bool,
}

/// classic decoder (no back-references: 0xfe is a 7-bit... no, it is an
/// invalid size prefix in the classic format)
pub fn decode_classic(b: &[u8]) -> Result<Decoded, DecErr> {
    decode_impl(b, false)
}

/// back-reference decoder following docs/compressed-serialization.md: the
/// parse stack is kept as an explicit list (top first); a path walks the
/// list-as-cons-structure.
pub fn decode_backrefs(b: &[u8]) -> Result<Decoded, DecErr> {
    decode_impl(b, true)
}

fn decode_impl(b: &[u8], backrefs: bool) -> Result<Decoded, DecErr> {
    #[derive(Clone, Copy)]
    enum Op {
        Traverse,
        Cons,
    }
    let mut d = Dag::new();
    let mut canonical = true;
    let mut pos = 0usize;
    let mut ops = vec![Op::Traverse];
    // parse stack: bottom first (top is last)
    let mut stack: Vec<u32> = Vec::new();
    // lazily created nil node for paths running off the end of the stack list
    while let Some(op) = ops.pop() {
        match op {
            Op::Traverse => {
                let first = *b.get(pos).ok_or(DecErr::Truncated)?;
                if first == 0xff {
                    pos += 1;
                    ops.push(Op::Cons);
                    ops.push(Op::Traverse);
                    ops.push(Op::Traverse);
                } else if backrefs && first == 0xfe {
                    pos += 1;
                    let (start, len) = read_atom_header(b, pos, &mut canonical)?;
                    let path = &b[start..start + len];
                    pos = start + len;
                    let node = follow_path(&mut d, &stack, path)?;
                    stack.push(node);
                } else {
                    let (start, len) = read_atom_header(b, pos, &mut canonical)?;
                    let id = d.atom(&b[start..start + len]);
                    pos = start + len;
                    stack.push(id);
                }
            }
            Op::Cons => {
                let r = stack.pop().ok_or(DecErr::Other("stack underflow"))?;
                let l = stack.pop().ok_or(DecErr::Other("stack underflow"))?;
                let p = d.pair(l, r);
                stack.push(p);
            }
        }
    }
    let root = stack.pop().ok_or(DecErr::Other("empty"))?;
    // make root the last node
    if root != d.root() {
        // re-add as the final node by copying (atoms) or re-pairing
        match d.n[root as usize].clone() {
            N::A(bytes, _) => {
                d.atom(&bytes);
            }
            N::P(l, r) => {
                d.pair(l, r);
            }
        }
    }
    Ok(Decoded {
        dag: d,
        consumed: pos,
        canonical_atoms: canonical,
    })
}

/// Environment-style lookup into the parse stack seen as the list
/// (top . (next . (... . nil))).
fn follow_path(d: &mut Dag, stack: &[u32], path: &[u8]) -> Result<u32, DecErr> {
    // bits from least significant upwards; the most significant set bit is the
    // terminator. Leading zero bytes are skipped. All-zero / empty path -> nil.
    let first_nz = path.iter().position(|x| *x != 0);
    let Some(first_nz) = first_nz else {
        return Ok(d.nil());
    };
    let top_byte = path[first_nz];
    let top_bit = 7 - top_byte.leading_zeros() as usize; // index of terminator in its byte
    let total_bits = (path.len() - 1 - first_nz) * 8 + top_bit;
    // position: either "the list starting at stack index k (counting from top)"
    // or a concrete node
    enum Pos {
        List(usize), // the list whose head is the k-th element from the top; k == len -> nil
        Node(u32),
    }
    let mut cur = Pos::List(0);
    for i in 0..total_bits {
        let byte = path[path.len() - 1 - i / 8];
        let bit = (byte >> (i % 8)) & 1;
        cur = match cur {
            Pos::List(k) => {
                if k >= stack.len() {
                    // nil is an atom: cannot descend
                    return Err(DecErr::BadPath);
                }
                if bit == 0 {
                    Pos::Node(stack[stack.len() - 1 - k])
                } else {
                    Pos::List(k + 1)
                }
            }
            Pos::Node(n) => match &d.n[n as usize] {
                N::A(..) => return Err(DecErr::BadPath),
                N::P(l, r) => Pos::Node(if bit == 0 { *l } else { *r }),
            },
        };
    }
    Ok(match cur {
        Pos::Node(n) => n,
        Pos::List(k) => {
            // materialise the list of the remaining stack items
            let mut t = d.nil();
            for idx in 0..stack.len().saturating_sub(k) {
                t = d.pair(stack[idx], t);
            }
            t
        }
    })
}

// ---------------------------------------------------------------- varints --

/// minimal encoded length (1..=8) of a 56-bit signed value
pub fn varint_min_len(v: i64) -> Option<usize> {
    for n in 1..=8usize {
        let bits = 7 * n as u32;
        let lo = -(1i64 << (bits - 1));
        let hi = (1i64 << (bits - 1)) - 1;
        if v >= lo && v <= hi {
            return Some(n);
        }
    }
    None
}

pub fn varint_encode(v: i64) -> Option<Vec<u8>> {
    let n = varint_min_len(v)?;
    let bits = 7 * n as u32;
    let u: u64 = (v as u64) & ((1u64 << bits) - 1);
    // n-1 leading ones, a zero, then `bits` bits big-endian over n bytes
    let mut out = vec![0u8; n];
    for (k, o) in out.iter_mut().enumerate() {
        let shift = 8 * (n - 1 - k) as u32;
        *o = if shift >= 64 { 0 } else { (u >> shift) as u8 };
    }
    let lead: u8 = if n == 1 { 0 } else { !(0xffu8 >> (n - 1)) };
    // the first byte holds 8-n value bits below the prefix
    out[0] = lead | (out[0] & (0xffu16 >> n) as u8);
    Some(out)
}

/// returns (value, consumed, is_minimal)
pub fn varint_decode(b: &[u8]) -> Result<(i64, usize, bool), DecErr> {
    let first = *b.first().ok_or(DecErr::Truncated)?;
    let ones = first.leading_ones() as usize;
    if ones >= 8 {
        return Err(DecErr::BadPrefix);
    }
    let n = ones + 1;
    if b.len() < n {
        return Err(DecErr::Truncated);
    }
    let bits = 7 * n as u32;
    let mut u: u64 = if n == 8 {
        0
    } else {
        (first & (0x7fu8 >> ones)) as u64
    };
    for x in &b[1..n] {
        u = (u << 8) | *x as u64;
    }
    let v = if u >> (bits - 1) & 1 == 1 {
        (u as i64) - (1i64 << bits)
    } else {
        u as i64
    };
    Ok((v, n, varint_min_len(v) == Some(n)))
}

// ------------------------------------------------------------- serde 2026 --

pub const MAGIC: [u8; 6] = [0xfd, 0xff, 0x32, 0x30, 0x32, 0x36];

pub struct Dec2026 {
    pub dag: Dag,
    pub consumed: usize,
}

/// decoder for the 2026 format (whole blob incl. magic)
pub fn decode_2026(blob: &[u8], max_atom_len: u64, strict: bool) -> Result<Dec2026, DecErr> {
    if blob.len() < 6 || blob[..6] != MAGIC {
        return Err(DecErr::Other("magic"));
    }
    let mut pos = 6usize;
    let rd = |pos: &mut usize| -> Result<i64, DecErr> {
        let (v, n, minimal) = varint_decode(&blob[*pos..])?;
        if strict && !minimal {
            return Err(DecErr::Other("overlong varint"));
        }
        *pos += n;
        Ok(v)
    };
    let groups = rd(&mut pos)?;
    if groups < 0 {
        return Err(DecErr::Other("negative group count"));
    }
    let mut d = Dag::new();
    let mut atoms: Vec<u32> = Vec::new();
    for _ in 0..groups {
        let lv = rd(&mut pos)?;
        let (len, count) = if lv < 0 {
            let len = (-lv) as u64;
            if len > max_atom_len {
                return Err(DecErr::Other("atom too long"));
            }
            let c = rd(&mut pos)?;
            if c < 0 {
                return Err(DecErr::Other("negative count"));
            }
            (len, c as u64)
        } else {
            if lv as u64 > max_atom_len {
                return Err(DecErr::Other("atom too long"));
            }
            (lv as u64, 1u64)
        };
        if len == 0 || count == 0 {
            return Err(DecErr::Other("zero length or count"));
        }
        for _ in 0..count {
            if ((blob.len() - pos) as u64) < len {
                return Err(DecErr::Truncated);
            }
            let id = d.atom_r(&blob[pos..pos + len as usize], Repr::Nat);
            atoms.push(id);
            pos += len as usize;
        }
    }
    let ninst = rd(&mut pos)?;
    if ninst <= 0 {
        return Err(DecErr::Other("instruction count"));
    }
    let mut pairs: Vec<u32> = Vec::new();
    let mut stack: Vec<u32> = Vec::new();
    let mut nil: Option<u32> = None;
    for _ in 0..ninst {
        let inst = rd(&mut pos)?;
        if inst == 0 {
            let n = match nil {
                Some(n) => n,
                None => {
                    let n = d.nil();
                    nil = Some(n);
                    n
                }
            };
            stack.push(n);
        } else if inst == 1 || inst == -1 {
            if stack.len() < 2 {
                return Err(DecErr::Other("stack underflow"));
            }
            let b2 = stack.pop().unwrap();
            let a2 = stack.pop().unwrap();
            // 1: left pushed first; -1: right pushed first
            let (l, r) = if inst == 1 { (a2, b2) } else { (b2, a2) };
            let p = d.pair(l, r);
            pairs.push(p);
            stack.push(p);
        } else if inst >= 2 {
            let i = (inst - 2) as usize;
            stack.push(*atoms.get(i).ok_or(DecErr::Other("atom index"))?);
        } else {
            let i = (-inst - 2) as usize;
            stack.push(*pairs.get(i).ok_or(DecErr::Other("pair index"))?);
        }
    }
    if stack.len() != 1 {
        return Err(DecErr::Other("final stack"));
    }
    let root = stack[0];
    if root != d.root() || d.n.is_empty() {
        match d.n[root as usize].clone() {
            N::A(bytes, _) => {
                d.atom(&bytes);
            }
            N::P(l, r) => {
                d.pair(l, r);
            }
        }
    }
    Ok(Dec2026 { dag: d, consumed: pos })
}
