//! Parser for the repository's pinned operator vectors (op-tests/*.txt), used
//! to calibrate the reference models and as a source of valid cryptographic
//! material. Format: `op args... => value | cost` or `=> FAIL`; atoms are
//! `0x…`, decimal, `"text"`, symbols; lists in parentheses with optional ` . tail`.

use crate::dag::Dag;
use num_bigint::BigInt;
use num_traits::Num;

#[derive(Clone, Debug)]
pub struct OpTest {
    pub op: String,
    /// argument list as a dag
    pub args: Dag,
    /// None = FAIL
    pub expect: Option<(Dag, u64)>,
    pub line: String,
}

fn min_bytes(v: &BigInt) -> Vec<u8> {
    let (s, mag) = v.to_bytes_be();
    crate::checks::alloc_sm::bigint_min_bytes(s == num_bigint::Sign::Minus, &mag)
}

pub fn symbol(v: &str) -> Option<Vec<u8>> {
    let v = v.strip_prefix('#').unwrap_or(v);
    Some(match v {
        "q" => vec![1],
        "a" => vec![2],
        "i" => vec![3],
        "c" => vec![4],
        "f" => vec![5],
        "r" => vec![6],
        "l" => vec![7],
        "x" => vec![8],
        "=" => vec![9],
        ">s" => vec![10],
        "sha256" => vec![11],
        "substr" => vec![12],
        "strlen" => vec![13],
        "concat" => vec![14],
        "+" => vec![16],
        "-" => vec![17],
        "*" => vec![18],
        "/" => vec![19],
        "divmod" => vec![20],
        ">" => vec![21],
        "ash" => vec![22],
        "lsh" => vec![23],
        "logand" => vec![24],
        "logior" => vec![25],
        "logxor" => vec![26],
        "lognot" => vec![27],
        "point_add" | "g1_add" => vec![29],
        "pubkey_for_exp" => vec![30],
        "not" => vec![32],
        "any" => vec![33],
        "all" => vec![34],
        "softfork" => vec![36],
        "coinid" => vec![48],
        "g1_subtract" => vec![49],
        "g1_multiply" => vec![50],
        "g1_negate" => vec![51],
        "g2_add" => vec![52],
        "g2_subtract" => vec![53],
        "g2_multiply" => vec![54],
        "g2_negate" => vec![55],
        "g1_map" => vec![56],
        "g2_map" => vec![57],
        "bls_pairing_identity" => vec![58],
        "bls_verify" => vec![59],
        "modpow" => vec![60],
        "%" => vec![61],
        "keccak256" => vec![62],
        "sha256tree" => vec![63],
        "secp256k1_verify" => vec![0x13, 0xd6, 0x1f, 0x00],
        "secp256r1_verify" => vec![0x1c, 0x3a, 0x8f, 0x00],
        "secp256k1_verify_64" => vec![64],
        "secp256r1_verify_65" => vec![65],
        "unknown" => vec![0x00],
        "unknown_add" => vec![0x40],
        "unknown_mul" => vec![0x80],
        "unknown_concat" => vec![0xc0],
        "unknown_x2" => vec![0x01, 0x00],
        "unknown_add_x2" => vec![0x01, 0x40],
        "unknown_mul_x2" => vec![0x01, 0x80],
        "unknown_concat_x2" => vec![0x01, 0xc0],
        _ => return None,
    })
}

fn parse_atom(v: &str) -> Option<Vec<u8>> {
    if v == "0" {
        return Some(vec![]);
    }
    if let Some(h) = v.strip_prefix("0x") {
        return hex::decode(h).ok();
    }
    if v.starts_with('"') && v.ends_with('"') && v.len() >= 2 {
        return Some(v[1..v.len() - 1].as_bytes().to_vec());
    }
    if let Ok(n) = BigInt::from_str_radix(v, 10) {
        return Some(min_bytes(&n));
    }
    symbol(v)
}

fn pop_token(s: &str) -> (&str, &str) {
    let s = s.trim();
    if let Some(stripped) = s.strip_prefix('"') {
        let q = stripped.find('"').expect("quote");
        let (a, b) = s.split_at(q + 2);
        (a.trim(), b.trim())
    } else if s.starts_with('(') || s.starts_with(')') {
        let (a, b) = s.split_at(1);
        (a, b.trim())
    } else {
        let pos = match (s.find(' '), s.find(')')) {
            (Some(a), Some(b)) => a.min(b),
            (Some(a), None) => a,
            (None, Some(b)) => b,
            (None, None) => s.len(),
        };
        let (a, b) = s.split_at(pos);
        (a.trim(), b.trim())
    }
}

fn parse_list<'a>(d: &mut Dag, v: &'a str) -> Option<(u32, &'a str)> {
    let (first, rest) = pop_token(v);
    if first.is_empty() || first == ")" {
        return Some((d.nil(), rest));
    }
    if first == "(" {
        let (h, r) = parse_list(d, rest)?;
        let (t, r) = parse_list(d, r)?;
        Some((d.pair(h, t), r))
    } else if first == "." {
        let (n, r) = parse_exp(d, rest)?;
        let (end, r) = pop_token(r);
        if end != ")" {
            return None;
        }
        Some((n, r))
    } else {
        let b = parse_atom(first)?;
        let h = d.atom(&b);
        let (t, r) = parse_list(d, rest)?;
        Some((d.pair(h, t), r))
    }
}

fn parse_exp<'a>(d: &mut Dag, v: &'a str) -> Option<(u32, &'a str)> {
    let (first, rest) = pop_token(v);
    if first == "(" {
        parse_list(d, rest)
    } else {
        let b = parse_atom(first)?;
        Some((d.atom(&b), rest))
    }
}

pub fn parse_file(name: &str) -> Vec<OpTest> {
    let path = format!("/repo/op-tests/{name}.txt");
    let Ok(text) = std::fs::read_to_string(&path) else { return vec![] };
    let mut out = Vec::new();
    for line in text.lines() {
        let t = line.trim();
        if t.is_empty() || t.starts_with(';') {
            continue;
        }
        let Some((op, rest)) = t.split_once(' ') else { continue };
        let Some((args, res)) = rest.split_once("=>") else { continue };
        let mut d = Dag::new();
        let Some((_, _)) = parse_list(&mut d, args.trim()) else { continue };
        let res = res.trim();
        let expect = if res == "FAIL" {
            None
        } else {
            let (val, cost) = match res.split_once('|') {
                Some((v, c)) => (v.trim(), c.trim().parse::<u64>().unwrap_or(0)),
                None => (res, 0),
            };
            let mut e = Dag::new();
            let Some((_, _)) = parse_exp(&mut e, val) else { continue };
            Some((e, cost))
        };
        out.push(OpTest { op: op.to_string(), args: d, expect, line: t.to_string() });
    }
    out
}

/// the atoms of a proper argument list
pub fn arg_atoms(d: &Dag) -> Vec<Vec<u8>> {
    let mut out = Vec::new();
    let mut cur = d.root();
    loop {
        match &d.n[cur as usize] {
            crate::dag::N::P(l, r) => {
                if let crate::dag::N::A(b, _) = &d.n[*l as usize] {
                    out.push(b.clone());
                }
                cur = *r;
            }
            _ => break,
        }
    }
    out
}

/// valid (pubkey, msg, sig) triples from the pinned vectors: (k1, r1)
pub fn secp_valid() -> (Vec<[Vec<u8>; 3]>, Vec<[Vec<u8>; 3]>) {
    let mut k1 = Vec::new();
    let mut r1 = Vec::new();
    for f in ["test-secp256k1", "test-secp256r1", "test-secp-verify"] {
        for t in parse_file(f) {
            if t.expect.is_none() {
                continue;
            }
            let a = arg_atoms(&t.args);
            if a.len() != 3 {
                continue;
            }
            let tri = [a[0].clone(), a[1].clone(), a[2].clone()];
            if t.op.starts_with("secp256k1") {
                k1.push(tri);
            } else if t.op.starts_with("secp256r1") {
                r1.push(tri);
            }
        }
    }
    (k1, r1)
}

/// parse a whole expression in the text syntax used by the repository's tests
pub fn parse_text(v: &str) -> Option<Dag> {
    let mut d = Dag::new();
    let (_, rest) = parse_exp(&mut d, v)?;
    if !rest.trim().is_empty() {
        return None;
    }
    Some(d)
}
