//! Independent RFC 9380 hash-to-curve for BLS12-381: suites BLS12381G1_XMD:SHA-256_SSWU_RO_ and
//! BLS12381G2_XMD:SHA-256_SSWU_RO_ (expand_message_xmd over the harness' own SHA-256, hash_to_field,
//! simplified SWU on the isogenous curve, isogeny map, point addition, cofactor clearing by h_eff).
//! Written from the RFC's pseudo-code in its straight-line textbook form over `refcrypto` fields.

use crate::model::h2c_consts as k;
use crate::model::refcrypto::{self as rc, Curve, F1, F2, Field, Pt};
use crate::model::refhash::sha256;
use num_bigint::BigUint;
use num_traits::Zero;

fn hx(s: &str) -> BigUint {
    BigUint::parse_bytes(s.as_bytes(), 16).expect("hex")
}

/// RFC 9380 section 5.3.1
pub fn expand_message_xmd(msg: &[u8], dst: &[u8], len: usize) -> Option<Vec<u8>> {
    let ell = len.div_ceil(32);
    if ell > 255 || len > 65535 {
        return None;
    }
    let long;
    let dst: &[u8] = if dst.len() > 255 {
        long = sha256(&[b"H2C-OVERSIZE-DST-", dst]);
        &long
    } else {
        dst
    };
    let mut dst_prime = dst.to_vec();
    dst_prime.push(dst.len() as u8);
    let z_pad = [0u8; 64];
    let lib = [(len >> 8) as u8, len as u8];
    let b0 = sha256(&[&z_pad, msg, &lib, &[0u8], &dst_prime]);
    let mut b = sha256(&[&b0, &[1u8], &dst_prime]);
    let mut out = b.to_vec();
    for i in 2..=ell {
        let mut x = [0u8; 32];
        for j in 0..32 {
            x[j] = b0[j] ^ b[j];
        }
        b = sha256(&[&x, &[i as u8], &dst_prime]);
        out.extend_from_slice(&b);
    }
    out.truncate(len);
    Some(out)
}

fn sgn0_1(x: &F1) -> bool {
    x.v.bit(0)
}

fn sgn0_2(x: &F2) -> bool {
    let s0 = x.c0.v.bit(0);
    let z0 = x.c0.v.is_zero();
    let s1 = x.c1.v.bit(0);
    s0 || (z0 && s1)
}

/// simplified SWU (RFC 9380 section 6.6.2) for y^2 = x^3 + A x + B with A*B != 0
fn sswu<F: Field>(u: &F, a: &F, b: &F, z: &F, sgn0: fn(&F) -> bool) -> (F, F) {
    let u2 = u.sqr();
    let zu2 = z.mul(&u2);
    let tv = zu2.sqr().add(&zu2); // Z^2 u^4 + Z u^2
    let x1 = if tv.is_zero() {
        // x1 = B / (Z A)
        b.mul(&z.mul(a).inv())
    } else {
        // x1 = (-B / A) (1 + 1/tv)
        b.neg().mul(&a.inv()).mul(&tv.inv().add(&u.one_like()))
    };
    let g = |x: &F| x.sqr().mul(x).add(&a.mul(x)).add(b);
    let gx1 = g(&x1);
    let (x, mut y) = match gx1.sqrt() {
        Some(y) => (x1, y),
        None => {
            let x2 = zu2.mul(&x1);
            let y = g(&x2).sqrt().expect("gx2 is square when gx1 is not");
            (x2, y)
        }
    };
    if sgn0(u) != sgn0(&y) {
        y = y.neg();
    }
    (x, y)
}

fn horner<F: Field>(coeffs: &[F], x: &F, monic: bool) -> F {
    let mut acc = if monic { x.one_like() } else { x.zero_like() };
    for c in coeffs.iter().rev() {
        acc = acc.mul(x).add(c);
    }
    acc
}

fn f1(s: &str) -> F1 {
    F1::new(hx(s), rc::bls().p)
}

fn f2s(v: &[&str]) -> Vec<F2> {
    v.chunks(2).map(|c| F2 { c0: f1(c[0]), c1: f1(c[1]) }).collect()
}

fn iso1(p: &(F1, F1)) -> Pt<F1> {
    let (x, y) = p;
    let xn = horner(&k::G1_XNUM.iter().map(|s| f1(s)).collect::<Vec<_>>(), x, false);
    let xd = horner(&k::G1_XDEN.iter().map(|s| f1(s)).collect::<Vec<_>>(), x, true);
    let yn = horner(&k::G1_YNUM.iter().map(|s| f1(s)).collect::<Vec<_>>(), x, false);
    let yd = horner(&k::G1_YDEN.iter().map(|s| f1(s)).collect::<Vec<_>>(), x, true);
    if xd.is_zero() || yd.is_zero() {
        return None; // exceptional case: the point at infinity
    }
    Some((xn.mul(&xd.inv()), y.mul(&yn).mul(&yd.inv())))
}

fn iso2(p: &(F2, F2)) -> Pt<F2> {
    let (x, y) = p;
    let xn = horner(&f2s(&k::G2_XNUM), x, false);
    let xd = horner(&f2s(&k::G2_XDEN), x, true);
    let yn = horner(&f2s(&k::G2_YNUM), x, false);
    let yd = horner(&f2s(&k::G2_YDEN), x, true);
    if xd.is_zero() || yd.is_zero() {
        return None;
    }
    Some((xn.mul(&xd.inv()), y.mul(&yn).mul(&yd.inv())))
}

fn field_elems(msg: &[u8], dst: &[u8], count: usize) -> Option<Vec<F1>> {
    let bytes = expand_message_xmd(msg, dst, count * 64)?;
    Some(bytes.chunks(64).map(|c| F1::new(BigUint::from_bytes_be(c), rc::bls().p)).collect())
}

pub fn hash_to_g1(msg: &[u8], dst: &[u8]) -> Option<Pt<F1>> {
    let c = rc::bls();
    let u = field_elems(msg, dst, 2)?;
    let a = f1(k::G1_A[0]);
    let b = f1(k::G1_B[0]);
    let z = F1::new(BigUint::from(11u32), c.p);
    let q0 = iso1(&sswu(&u[0], &a, &b, &z, sgn0_1));
    let q1 = iso1(&sswu(&u[1], &a, &b, &z, sgn0_1));
    let r = c.e1.add(&q0, &q1);
    // clear_cofactor: h_eff = 0xd201000000010001
    Some(c.e1.mul(&r, &hx("d201000000010001")))
}

pub fn hash_to_g2(msg: &[u8], dst: &[u8]) -> Option<Pt<F2>> {
    let c = rc::bls();
    let e = field_elems(msg, dst, 4)?;
    let u0 = F2 { c0: e[0].clone(), c1: e[1].clone() };
    let u1 = F2 { c0: e[2].clone(), c1: e[3].clone() };
    let zero = F1::new(BigUint::zero(), c.p);
    let a = F2 { c0: zero.clone(), c1: F1::new(BigUint::from(240u32), c.p) };
    let b = F2 { c0: F1::new(BigUint::from(1012u32), c.p), c1: F1::new(BigUint::from(1012u32), c.p) };
    // Z = -(2 + I)
    let z = F2 { c0: F1::new(BigUint::from(2u32), c.p).neg(), c1: F1::new(BigUint::from(1u32), c.p).neg() };
    let q0 = iso2(&sswu(&u0, &a, &b, &z, sgn0_2));
    let q1 = iso2(&sswu(&u1, &a, &b, &z, sgn0_2));
    let r = c.e2.add(&q0, &q1);
    let h_eff = hx("bc69f08f2ee75b3584c6a0ea91b352888e2a8e9145ad7689986ff031508ffe1329c2f178731db956d82bf015d1212b02ec0ec69d7477c1ae954cbc06689f6a359894c0adebbf6b4e8020005aaa95551");
    Some(c.e2.mul(&r, &h_eff))
}

/// the maps built from the constants send points of E' onto E, and hashed points are finite members of the subgroups
pub fn self_test() -> Result<(), String> {
    let c = rc::bls();
    // G1: a point on E'
    let a = f1(k::G1_A[0]);
    let b = f1(k::G1_B[0]);
    let e1p = Curve { a: a.clone(), b: b.clone() };
    let mut x = F1::new(BigUint::from(5u32), c.p);
    let p1 = loop {
        let rhs = x.sqr().mul(&x).add(&a.mul(&x)).add(&b);
        if let Some(y) = rhs.sqrt() {
            break (x.clone(), y);
        }
        x = x.add(&x.one_like());
    };
    if !e1p.on_curve(&Some(p1.clone())) || !c.e1.on_curve(&iso1(&p1)) {
        return Err("11-isogeny does not map E1' onto E1".into());
    }
    let zero = F1::new(BigUint::zero(), c.p);
    let a2 = F2 { c0: zero.clone(), c1: F1::new(BigUint::from(240u32), c.p) };
    let b2 = F2 { c0: F1::new(BigUint::from(1012u32), c.p), c1: F1::new(BigUint::from(1012u32), c.p) };
    let mut x = F2 { c0: F1::new(BigUint::from(3u32), c.p), c1: F1::new(BigUint::from(1u32), c.p) };
    let p2 = loop {
        let rhs = x.sqr().mul(&x).add(&a2.mul(&x)).add(&b2);
        if let Some(y) = rhs.sqrt() {
            break (x.clone(), y);
        }
        x = x.add(&x.one_like());
    };
    if !c.e2.on_curve(&iso2(&p2)) {
        return Err("3-isogeny does not map E2' onto E2".into());
    }
    let h1 = hash_to_g1(b"abc", b"QUUX-V01-CS02-with-BLS12381G1_XMD:SHA-256_SSWU_RO_").ok_or("h1")?;
    if h1.is_none() || !c.e1.on_curve(&h1) || c.e1.mul(&h1, &c.r).is_some() {
        return Err("hash_to_g1 output is not a finite subgroup point".into());
    }
    let h2 = hash_to_g2(b"abc", b"QUUX-V01-CS02-with-BLS12381G2_XMD:SHA-256_SSWU_RO_").ok_or("h2")?;
    if h2.is_none() || !c.e2.on_curve(&h2) || c.e2.mul(&h2, &c.r).is_some() {
        return Err("hash_to_g2 output is not a finite subgroup point".into());
    }
    // RFC 9380 appendix J.9.1, msg = "abc": P.x
    let want = hx("03567bc5ef9c690c2ab2ecdf6a96ef1c139cc0b2f284dca0a9a7943388a49a3aee664ba5379a7655d3c68900be2f6903");
    if h1.as_ref().map(|p| p.0.v.clone()) != Some(want) {
        return Err("hash_to_g1(\"abc\") differs from the RFC 9380 test vector".into());
    }
    Ok(())
}

#[cfg(test)]
mod tests {
    #[test]
    fn h2c_self_test() {
        super::self_test().unwrap();
    }
}
