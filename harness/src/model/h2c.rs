//! Independent RFC 9380 hash-to-curve for BLS12-381 (placeholder: not available yet; callers fall back).

use crate::model::refcrypto::{F1, F2, Pt};

pub fn hash_to_g1(_msg: &[u8], _dst: &[u8]) -> Option<Pt<F1>> {
    None
}

pub fn hash_to_g2(_msg: &[u8], _dst: &[u8]) -> Option<Pt<F2>> {
    None
}
