//! Reference CLVM interpreter: a function-by-function port of the historical
//! reference implementation (Python `clvm`: run_program.py, core_ops.py,
//! more_ops.py, costs.py, casts.py, operators.py::default_unknown_op), written
//! from its published semantics (DESIGN.md appendix A). Nothing here calls into
//! clvmr. Named adapters (the only deviations from the reference):
//!   A1 div-floor-negative  - `/` is floor division for all signs
//!   A2 softfork-guard      - the softfork operator is the guard of run_program.rs

use num_bigint::{BigInt, Sign};
use num_integer::Integer;
use num_traits::{Signed, ToPrimitive, Zero};
use std::rc::Rc;

#[derive(Debug)]
pub enum Sx {
    A(Vec<u8>),
    P(Rc<Sx>, Rc<Sx>),
}

pub type S = Rc<Sx>;

pub fn atom(b: &[u8]) -> S {
    Rc::new(Sx::A(b.to_vec()))
}
pub fn cons(a: &S, b: &S) -> S {
    Rc::new(Sx::P(a.clone(), b.clone()))
}
fn nil() -> S {
    atom(&[])
}
fn t() -> S {
    atom(&[1])
}

#[derive(Debug, Clone, PartialEq, Eq)]
pub enum RefErr {
    /// "in ((X)...) syntax X must be lone atom"
    LoneAtom,
    /// "first of non-cons" raised while iterating an operand list (as_iter / eval)
    ImproperList,
    CostExceeded,
    /// the program applied (possibly computed at run time) an opcode that ChiaDialect assigns to a post-reference
    /// operator (29, 30, 48..62, the two 4-byte secp codes): outside the domain of the comparison
    OutsideDomain,
    Other(String),
}

fn err<T>(m: &str) -> Result<T, RefErr> {
    Err(RefErr::Other(m.to_string()))
}

fn nullp(s: &S) -> bool {
    matches!(&**s, Sx::A(b) if b.is_empty())
}
fn first(s: &S) -> Result<S, RefErr> {
    match &**s {
        Sx::P(a, _) => Ok(a.clone()),
        _ => err("first of non-cons"),
    }
}
fn rest(s: &S) -> Result<S, RefErr> {
    match &**s {
        Sx::P(_, b) => Ok(b.clone()),
        _ => err("rest of non-cons"),
    }
}
fn list_len(s: &S) -> usize {
    let mut n = 0;
    let mut v = s.clone();
    while let Sx::P(_, r) = &*v.clone() {
        n += 1;
        v = r.clone();
    }
    n
}
/// SExp.as_iter: walks until the empty atom; a non-nil atom terminator raises "first of non-cons"
fn as_iter(s: &S) -> Result<Vec<S>, RefErr> {
    let mut out = Vec::new();
    let mut v = s.clone();
    while !nullp(&v) {
        match &*v.clone() {
            Sx::P(a, r) => {
                out.push(a.clone());
                v = r.clone();
            }
            _ => return Err(RefErr::ImproperList),
        }
    }
    Ok(out)
}

// ---- casts.py ----
pub fn int_from_bytes(b: &[u8]) -> BigInt {
    if b.is_empty() {
        return BigInt::zero();
    }
    // signed big-endian, by hand
    let neg = b[0] & 0x80 != 0;
    if !neg {
        BigInt::from_bytes_be(Sign::Plus, b)
    } else {
        // value = unsigned - 2^(8*len)
        let u = BigInt::from_bytes_be(Sign::Plus, b);
        u - (BigInt::from(1) << (8 * b.len()))
    }
}

pub fn int_to_bytes(v: &BigInt) -> Vec<u8> {
    if v.is_zero() {
        return vec![];
    }
    let (s, mag) = v.to_bytes_be();
    crate::checks::alloc_sm::bigint_min_bytes(s == Sign::Minus, &mag)
}

fn limbs_for_int(v: &BigInt) -> u64 {
    // (v.bit_length() + 7) >> 3
    (v.bits() + 7) >> 3
}

fn to_int(v: &BigInt) -> S {
    atom(&int_to_bytes(v))
}

// ---- costs.py ----
const IF_COST: u64 = 33;
const CONS_COST: u64 = 50;
const FIRST_COST: u64 = 30;
const REST_COST: u64 = 30;
const LISTP_COST: u64 = 19;
const MALLOC_COST_PER_BYTE: u64 = 10;
const ARITH_BASE_COST: u64 = 99;
const ARITH_COST_PER_BYTE: u64 = 3;
const ARITH_COST_PER_ARG: u64 = 320;
const LOG_BASE_COST: u64 = 100;
const LOG_COST_PER_BYTE: u64 = 3;
const LOG_COST_PER_ARG: u64 = 264;
const GRS_BASE_COST: u64 = 117;
const GRS_COST_PER_BYTE: u64 = 1;
const EQ_BASE_COST: u64 = 117;
const EQ_COST_PER_BYTE: u64 = 1;
const GR_BASE_COST: u64 = 498;
const GR_COST_PER_BYTE: u64 = 2;
const DIVMOD_BASE_COST: u64 = 1116;
const DIVMOD_COST_PER_BYTE: u64 = 6;
const DIV_BASE_COST: u64 = 988;
const DIV_COST_PER_BYTE: u64 = 4;
const SHA256_BASE_COST: u64 = 87;
const SHA256_COST_PER_ARG: u64 = 134;
const SHA256_COST_PER_BYTE: u64 = 2;
const MUL_BASE_COST: u64 = 92;
const MUL_COST_PER_OP: u64 = 885;
const MUL_LINEAR_COST_PER_BYTE: u64 = 6;
const MUL_SQUARE_COST_PER_BYTE_DIVIDER: u64 = 128;
const STRLEN_BASE_COST: u64 = 173;
const STRLEN_COST_PER_BYTE: u64 = 1;
const PATH_LOOKUP_BASE_COST: u64 = 40;
const PATH_LOOKUP_COST_PER_LEG: u64 = 4;
const PATH_LOOKUP_COST_PER_ZERO_BYTE: u64 = 4;
const CONCAT_BASE_COST: u64 = 142;
const CONCAT_COST_PER_ARG: u64 = 135;
const CONCAT_COST_PER_BYTE: u64 = 3;
const BOOL_BASE_COST: u64 = 200;
const BOOL_COST_PER_ARG: u64 = 300;
const ASHIFT_BASE_COST: u64 = 596;
const ASHIFT_COST_PER_BYTE: u64 = 3;
const LSHIFT_BASE_COST: u64 = 277;
const LSHIFT_COST_PER_BYTE: u64 = 3;
const LOGNOT_BASE_COST: u64 = 331;
const LOGNOT_COST_PER_BYTE: u64 = 3;
const APPLY_COST: u64 = 90;
const QUOTE_COST: u64 = 20;
// adapter A2
const GUARD_COST: u64 = 140;

type OpR = Result<(u128, S), RefErr>;

fn malloc_cost(cost: u128, a: S) -> OpR {
    let l = match &*a {
        Sx::A(b) => b.len() as u128,
        _ => 0,
    };
    Ok((cost + l * MALLOC_COST_PER_BYTE as u128, a))
}

fn atom_of(s: &S) -> Option<&Vec<u8>> {
    match &**s {
        Sx::A(b) => Some(b),
        _ => None,
    }
}

fn args_as_ints(name: &str, args: &S) -> Result<Vec<(BigInt, u64)>, RefErr> {
    let mut out = Vec::new();
    for a in as_iter(args)? {
        match atom_of(&a) {
            Some(b) => out.push((int_from_bytes(b), b.len() as u64)),
            None => return err(&format!("{name} requires int args")),
        }
    }
    Ok(out)
}

fn args_as_int_list(name: &str, args: &S, count: usize) -> Result<Vec<(BigInt, u64)>, RefErr> {
    let l = args_as_ints(name, args)?;
    if l.len() != count {
        return err(&format!("{name} takes exactly {count} arguments"));
    }
    Ok(l)
}

fn args_as_int32(name: &str, args: &S) -> Result<Vec<BigInt>, RefErr> {
    let mut out = Vec::new();
    for a in as_iter(args)? {
        match atom_of(&a) {
            Some(b) => {
                if b.len() > 4 {
                    return err(&format!("{name} requires int32 args (with no leading zeros)"));
                }
                out.push(int_from_bytes(b));
            }
            None => return err(&format!("{name} requires int32 args")),
        }
    }
    Ok(out)
}

// ---- core_ops.py ----
fn op_if(args: &S) -> OpR {
    if list_len(args) != 3 {
        return err("i takes exactly 3 arguments");
    }
    let r = rest(args)?;
    if nullp(&first(args)?) {
        Ok((IF_COST as u128, first(&rest(&r)?)?))
    } else {
        Ok((IF_COST as u128, first(&r)?))
    }
}
fn op_cons(args: &S) -> OpR {
    if list_len(args) != 2 {
        return err("c takes exactly 2 arguments");
    }
    Ok((CONS_COST as u128, cons(&first(args)?, &first(&rest(args)?)?)))
}
fn op_first(args: &S) -> OpR {
    if list_len(args) != 1 {
        return err("f takes exactly 1 argument");
    }
    Ok((FIRST_COST as u128, first(&first(args)?)?))
}
fn op_rest(args: &S) -> OpR {
    if list_len(args) != 1 {
        return err("r takes exactly 1 argument");
    }
    Ok((REST_COST as u128, rest(&first(args)?)?))
}
fn op_listp(args: &S) -> OpR {
    if list_len(args) != 1 {
        return err("l takes exactly 1 argument");
    }
    let x = first(args)?;
    Ok((LISTP_COST as u128, if matches!(&*x, Sx::P(..)) { t() } else { nil() }))
}
fn op_raise(_args: &S) -> OpR {
    err("clvm raise")
}
fn op_eq(args: &S) -> OpR {
    if list_len(args) != 2 {
        return err("= takes exactly 2 arguments");
    }
    let a0 = first(args)?;
    let a1 = first(&rest(args)?)?;
    let (Some(b0), Some(b1)) = (atom_of(&a0), atom_of(&a1)) else {
        return err("= on list");
    };
    let cost = EQ_BASE_COST + (b0.len() + b1.len()) as u64 * EQ_COST_PER_BYTE;
    Ok((cost as u128, if b0 == b1 { t() } else { nil() }))
}

// ---- more_ops.py ----
fn op_sha256(args: &S) -> OpR {
    let mut cost = SHA256_BASE_COST as u128;
    let mut arg_len = 0u128;
    let mut h = crate::model::refhash::Sha256::new();
    for a in as_iter(args)? {
        let Some(b) = atom_of(&a) else { return err("sha256 on list") };
        arg_len += b.len() as u128;
        cost += SHA256_COST_PER_ARG as u128;
        h.update(b);
    }
    cost += arg_len * SHA256_COST_PER_BYTE as u128;
    malloc_cost(cost, atom(&h.finalize()))
}

fn op_add(args: &S) -> OpR {
    let mut total = BigInt::zero();
    let mut cost = ARITH_BASE_COST as u128;
    let mut arg_size = 0u128;
    for (r, l) in args_as_ints("+", args)? {
        total += r;
        arg_size += l as u128;
        cost += ARITH_COST_PER_ARG as u128;
    }
    cost += arg_size * ARITH_COST_PER_BYTE as u128;
    malloc_cost(cost, to_int(&total))
}

fn op_subtract(args: &S) -> OpR {
    let mut cost = ARITH_BASE_COST as u128;
    if nullp(args) {
        return malloc_cost(cost, to_int(&BigInt::zero()));
    }
    let mut sign = 1;
    let mut total = BigInt::zero();
    let mut arg_size = 0u128;
    for (r, l) in args_as_ints("-", args)? {
        if sign == 1 {
            total += r;
        } else {
            total -= r;
        }
        sign = -1;
        arg_size += l as u128;
        cost += ARITH_COST_PER_ARG as u128;
    }
    cost += arg_size * ARITH_COST_PER_BYTE as u128;
    malloc_cost(cost, to_int(&total))
}

fn op_multiply(args: &S) -> OpR {
    let mut cost = MUL_BASE_COST as u128;
    let ops = args_as_ints("*", args)?;
    let mut it = ops.into_iter();
    let Some((mut v, mut vs)) = it.next() else {
        return malloc_cost(cost, to_int(&BigInt::from(1)));
    };
    for (r, rs) in it {
        cost += MUL_COST_PER_OP as u128;
        cost += (rs as u128 + vs as u128) * MUL_LINEAR_COST_PER_BYTE as u128;
        cost += (rs as u128 * vs as u128) / MUL_SQUARE_COST_PER_BYTE_DIVIDER as u128;
        v *= r;
        vs = limbs_for_int(&v);
    }
    malloc_cost(cost, to_int(&v))
}

fn op_divmod(args: &S) -> OpR {
    let mut cost = DIVMOD_BASE_COST as u128;
    let l = args_as_int_list("divmod", args, 2)?;
    let ((i0, l0), (i1, l1)) = (l[0].clone(), l[1].clone());
    if i1.is_zero() {
        return err("divmod with 0");
    }
    cost += (l0 + l1) as u128 * DIVMOD_COST_PER_BYTE as u128;
    let (q, r) = i0.div_mod_floor(&i1);
    let q1 = to_int(&q);
    let r1 = to_int(&r);
    cost += (atom_of(&q1).unwrap().len() + atom_of(&r1).unwrap().len()) as u128 * MALLOC_COST_PER_BYTE as u128;
    Ok((cost, cons(&q1, &r1)))
}

fn op_div(args: &S) -> OpR {
    let mut cost = DIV_BASE_COST as u128;
    let l = args_as_int_list("/", args, 2)?;
    let ((i0, l0), (i1, l1)) = (l[0].clone(), l[1].clone());
    if i1.is_zero() {
        return err("div with 0");
    }
    cost += (l0 + l1) as u128 * DIV_COST_PER_BYTE as u128;
    // adapter A1 (div-floor-negative): floor division for every sign combination
    let q = i0.div_floor(&i1);
    malloc_cost(cost, to_int(&q))
}

fn op_gr(args: &S) -> OpR {
    let l = args_as_int_list(">", args, 2)?;
    let cost = GR_BASE_COST + (l[0].1 + l[1].1) * GR_COST_PER_BYTE;
    Ok((cost as u128, if l[0].0 > l[1].0 { t() } else { nil() }))
}

fn op_gr_bytes(args: &S) -> OpR {
    let l = as_iter(args)?;
    if l.len() != 2 {
        return err(">s takes exactly 2 arguments");
    }
    let (Some(b0), Some(b1)) = (atom_of(&l[0]), atom_of(&l[1])) else {
        return err(">s on list");
    };
    let cost = GRS_BASE_COST + (b0.len() + b1.len()) as u64 * GRS_COST_PER_BYTE;
    Ok((cost as u128, if b0 > b1 { t() } else { nil() }))
}

fn op_strlen(args: &S) -> OpR {
    if list_len(args) != 1 {
        return err("strlen takes exactly 1 argument");
    }
    let a0 = first(args)?;
    let Some(b) = atom_of(&a0) else { return err("strlen on list") };
    let size = b.len() as u64;
    let cost = STRLEN_BASE_COST + size * STRLEN_COST_PER_BYTE;
    malloc_cost(cost as u128, to_int(&BigInt::from(size)))
}

fn op_substr(args: &S) -> OpR {
    let n = list_len(args);
    if n != 2 && n != 3 {
        return err("substr takes exactly 2 or 3 arguments");
    }
    let a0 = first(args)?;
    let Some(s0) = atom_of(&a0) else { return err("substr on list") };
    let idx = args_as_int32("substr", &rest(args)?)?;
    let len = BigInt::from(s0.len());
    let (i1, i2) = if n == 2 {
        if idx.len() != 1 {
            return err("substr index list");
        }
        (idx[0].clone(), len.clone())
    } else {
        if idx.len() != 2 {
            return err("substr index list");
        }
        (idx[0].clone(), idx[1].clone())
    };
    if i2 > len || i2 < i1 || i2.is_negative() || i1.is_negative() {
        return err("invalid indices for substr");
    }
    let (a, b) = (i1.to_usize().unwrap(), i2.to_usize().unwrap());
    Ok((1, atom(&s0[a..b])))
}

fn op_concat(args: &S) -> OpR {
    let mut cost = CONCAT_BASE_COST as u128;
    let mut s: Vec<u8> = Vec::new();
    for a in as_iter(args)? {
        let Some(b) = atom_of(&a) else { return err("concat on list") };
        s.extend_from_slice(b);
        cost += CONCAT_COST_PER_ARG as u128;
    }
    cost += s.len() as u128 * CONCAT_COST_PER_BYTE as u128;
    malloc_cost(cost, atom(&s))
}

/// arithmetic shift on two's-complement semantics (floor for negatives), by hand on the value
fn shift(v: &BigInt, by: i64) -> BigInt {
    if by >= 0 {
        v * (BigInt::from(1) << (by as usize))
    } else {
        // floor division by 2^k
        let d = BigInt::from(1) << ((-by) as usize);
        v.div_floor(&d)
    }
}

fn op_ash(args: &S) -> OpR {
    let l = args_as_int_list("ash", args, 2)?;
    let ((i0, l0), (i1, l1)) = (l[0].clone(), l[1].clone());
    if l1 > 4 {
        return err("ash requires int32 args (with no leading zeros)");
    }
    if i1.abs() > BigInt::from(65535) {
        return err("shift too large");
    }
    let r = shift(&i0, i1.to_i64().unwrap());
    let cost = ASHIFT_BASE_COST as u128 + (l0 as u128 + limbs_for_int(&r) as u128) * ASHIFT_COST_PER_BYTE as u128;
    malloc_cost(cost, to_int(&r))
}

fn op_lsh(args: &S) -> OpR {
    let l = args_as_int_list("lsh", args, 2)?;
    let (l0, (i1, l1)) = (l[0].1, l[1].clone());
    if l1 > 4 {
        return err("lsh requires int32 args (with no leading zeros)");
    }
    if i1.abs() > BigInt::from(65535) {
        return err("shift too large");
    }
    // the first argument is read as an *unsigned* integer
    let a0 = first(args)?;
    let i0 = BigInt::from_bytes_be(Sign::Plus, atom_of(&a0).unwrap());
    let r = shift(&i0, i1.to_i64().unwrap());
    let cost = LSHIFT_BASE_COST as u128 + (l0 as u128 + limbs_for_int(&r) as u128) * LSHIFT_COST_PER_BYTE as u128;
    malloc_cost(cost, to_int(&r))
}

fn binop(name: &str, init: BigInt, args: &S, f: fn(&BigInt, &BigInt) -> BigInt) -> OpR {
    let mut total = init;
    let mut arg_size = 0u128;
    let mut cost = LOG_BASE_COST as u128;
    for (r, l) in args_as_ints(name, args)? {
        total = f(&total, &r);
        arg_size += l as u128;
        cost += LOG_COST_PER_ARG as u128;
    }
    cost += arg_size * LOG_COST_PER_BYTE as u128;
    malloc_cost(cost, to_int(&total))
}

fn op_lognot(args: &S) -> OpR {
    let l = args_as_int_list("lognot", args, 1)?;
    let cost = LOGNOT_BASE_COST + l[0].1 * LOGNOT_COST_PER_BYTE;
    // ~x = -x - 1
    let v = -&l[0].0 - BigInt::from(1);
    malloc_cost(cost as u128, to_int(&v))
}

fn args_as_bools(args: &S) -> Result<Vec<bool>, RefErr> {
    Ok(as_iter(args)?.iter().map(|a| !matches!(&**a, Sx::A(b) if b.is_empty())).collect())
}

fn op_not(args: &S) -> OpR {
    let l = args_as_bools(args)?;
    if l.len() != 1 {
        return err("not takes exactly 1 argument");
    }
    Ok((BOOL_BASE_COST as u128, if l[0] { nil() } else { t() }))
}
fn op_any(args: &S) -> OpR {
    let l = args_as_bools(args)?;
    let cost = BOOL_BASE_COST + l.len() as u64 * BOOL_COST_PER_ARG;
    Ok((cost as u128, if l.iter().any(|x| *x) { t() } else { nil() }))
}
fn op_all(args: &S) -> OpR {
    let l = args_as_bools(args)?;
    let cost = BOOL_BASE_COST + l.len() as u64 * BOOL_COST_PER_ARG;
    Ok((cost as u128, if l.iter().all(|x| *x) { t() } else { nil() }))
}

// ---- operators.py::default_unknown_op ----
fn args_len(args: &S) -> Result<Vec<u128>, RefErr> {
    let mut out = Vec::new();
    for a in as_iter(args)? {
        match atom_of(&a) {
            Some(b) => out.push(b.len() as u128),
            None => return err("unknown op requires int args"),
        }
    }
    Ok(out)
}

fn default_unknown_op(op: &[u8], args: &S) -> OpR {
    if (op.len() == 1 && (op[0] == 29 || op[0] == 30 || (48..=62).contains(&op[0]))) || op == [0x13, 0xd6, 0x1f, 0x00] || op == [0x1c, 0x3a, 0x8f, 0x00] {
        return Err(RefErr::OutsideDomain);
    }
    if op.is_empty() || (op.len() >= 2 && op[0] == 0xff && op[1] == 0xff) {
        return err("reserved operator");
    }
    let cost_function = (op[op.len() - 1] & 0b11000000) >> 6;
    if op.len() > 5 {
        return err("invalid operator");
    }
    let mut mult: u128 = 0;
    for b in &op[..op.len() - 1] {
        mult = (mult << 8) | *b as u128;
    }
    mult += 1;
    let mut cost: u128 = match cost_function {
        0 => 1,
        1 => {
            let mut c = ARITH_BASE_COST as u128;
            let mut size = 0u128;
            for l in args_len(args)? {
                size += l;
                c += ARITH_COST_PER_ARG as u128;
            }
            c + size * ARITH_COST_PER_BYTE as u128
        }
        2 => {
            let mut c = MUL_BASE_COST as u128;
            let ls = args_len(args)?;
            let mut it = ls.into_iter();
            if let Some(mut vs) = it.next() {
                for rs in it {
                    c += MUL_COST_PER_OP as u128;
                    c += (rs + vs) * MUL_LINEAR_COST_PER_BYTE as u128;
                    c += (rs * vs) / MUL_SQUARE_COST_PER_BYTE_DIVIDER as u128;
                    vs += rs;
                }
            }
            c
        }
        _ => {
            let mut c = CONCAT_BASE_COST as u128;
            let mut length = 0u128;
            for l in args_len(args)? {
                length += l;
                c += CONCAT_COST_PER_ARG as u128;
            }
            c + length * CONCAT_COST_PER_BYTE as u128
        }
    };
    cost *= mult;
    if cost >= (1u128 << 32) {
        return err("invalid operator");
    }
    Ok((cost, nil()))
}

fn operator(op: &[u8], args: &S) -> OpR {
    if op.len() == 1 {
        match op[0] {
            3 => return op_if(args),
            4 => return op_cons(args),
            5 => return op_first(args),
            6 => return op_rest(args),
            7 => return op_listp(args),
            8 => return op_raise(args),
            9 => return op_eq(args),
            10 => return op_gr_bytes(args),
            11 => return op_sha256(args),
            12 => return op_substr(args),
            13 => return op_strlen(args),
            14 => return op_concat(args),
            16 => return op_add(args),
            17 => return op_subtract(args),
            18 => return op_multiply(args),
            19 => return op_div(args),
            20 => return op_divmod(args),
            21 => return op_gr(args),
            22 => return op_ash(args),
            23 => return op_lsh(args),
            24 => return binop("logand", BigInt::from(-1), args, |a, b| a & b),
            25 => return binop("logior", BigInt::zero(), args, |a, b| a | b),
            26 => return binop("logxor", BigInt::zero(), args, |a, b| a ^ b),
            27 => return op_lognot(args),
            32 => return op_not(args),
            33 => return op_any(args),
            34 => return op_all(args),
            _ => {}
        }
    }
    default_unknown_op(op, args)
}

// ---- run_program.py ----
fn msb_mask(byte: u8) -> u8 {
    let mut b = byte;
    b |= b >> 1;
    b |= b >> 2;
    b |= b >> 4;
    ((b as u16 + 1) >> 1) as u8
}

fn traverse_path(sexp: &S, env: &S) -> Result<(u128, S), RefErr> {
    let mut cost = (PATH_LOOKUP_BASE_COST + PATH_LOOKUP_COST_PER_LEG) as u128;
    if nullp(sexp) {
        return Ok((cost, nil()));
    }
    let b = atom_of(sexp).unwrap();
    let mut end_byte_cursor = 0;
    while end_byte_cursor < b.len() && b[end_byte_cursor] == 0 {
        end_byte_cursor += 1;
    }
    cost += end_byte_cursor as u128 * PATH_LOOKUP_COST_PER_ZERO_BYTE as u128;
    if end_byte_cursor == b.len() {
        return Ok((cost, nil()));
    }
    let end_bitmask = msb_mask(b[end_byte_cursor]) as u16;
    let mut byte_cursor = b.len() - 1;
    let mut bitmask: u16 = 0x01;
    let mut env = env.clone();
    while byte_cursor > end_byte_cursor || bitmask < end_bitmask {
        let Sx::P(l, r) = &*env.clone() else { return err("path into atom") };
        env = if b[byte_cursor] as u16 & bitmask != 0 { r.clone() } else { l.clone() };
        cost += PATH_LOOKUP_COST_PER_LEG as u128;
        bitmask <<= 1;
        if bitmask == 0x100 {
            byte_cursor -= 1;
            bitmask = 0x01;
        }
    }
    Ok((cost, env))
}

enum Op {
    Eval,
    Apply,
    Cons,
    Swap,
    /// adapter A2: leave the innermost guard
    ExitGuard,
}

pub struct RefOut {
    pub cost: u64,
    pub value: S,
    /// operator applications executed (quote and path lookups excluded)
    pub ops_executed: u64,
    pub per_op: std::collections::BTreeMap<Vec<u8>, u32>,
    pub guard_entered: bool,
}

/// unsigned integer argument of the guard (adapter A2): atom, not negative, leading zeros
/// allowed, at most `size` significant bytes
fn uint_arg(s: &S, size: usize) -> Result<u64, RefErr> {
    let Some(b) = atom_of(s) else { return err("softfork requires int args") };
    if b.is_empty() {
        return Ok(0);
    }
    if b[0] & 0x80 != 0 {
        return err("softfork requires positive int arg");
    }
    let stripped: Vec<u8> = b.iter().copied().skip_while(|x| *x == 0).collect();
    if stripped.len() > size {
        return err("softfork requires u64/u32 arg");
    }
    let mut v: u64 = 0;
    for x in stripped {
        v = (v << 8) | x as u64;
    }
    Ok(v)
}

pub fn run_program(program: &S, args: &S, max_cost: u64) -> Result<RefOut, RefErr> {
    let max_cost: u128 = if max_cost == 0 { u128::MAX } else { max_cost as u128 };
    let mut op_stack: Vec<Op> = vec![Op::Eval];
    let mut value_stack: Vec<S> = vec![cons(program, args)];
    let mut cost: u128 = 0;
    // adapter A2: stack of (expected total cost at exit)
    let mut guards: Vec<u128> = Vec::new();
    let mut ops_executed = 0u64;
    let mut per_op = std::collections::BTreeMap::new();
    let mut guard_entered = false;

    while let Some(op) = op_stack.pop() {
        let effective_max = guards.last().copied().unwrap_or(max_cost);
        let c: u128 = match op {
            Op::Swap => {
                let v2 = value_stack.pop().unwrap();
                let v1 = value_stack.pop().unwrap();
                value_stack.push(v2);
                value_stack.push(v1);
                0
            }
            Op::Cons => {
                let v1 = value_stack.pop().unwrap();
                let v2 = value_stack.pop().unwrap();
                value_stack.push(cons(&v1, &v2));
                0
            }
            Op::Eval => {
                let pair = value_stack.pop().unwrap();
                let sexp = first(&pair)?;
                let args = rest(&pair)?;
                match &*sexp.clone() {
                    Sx::A(_) => {
                        let (c, r) = traverse_path(&sexp, &args)?;
                        value_stack.push(r);
                        c
                    }
                    Sx::P(operator_node, operand_list0) => {
                        if let Sx::P(new_operator, must_be_nil) = &**operator_node {
                            if matches!(&**new_operator, Sx::P(..)) || !matches!(&**must_be_nil, Sx::A(b) if b.is_empty()) {
                                return Err(RefErr::LoneAtom);
                            }
                            value_stack.push(new_operator.clone());
                            value_stack.push(operand_list0.clone());
                            op_stack.push(Op::Apply);
                            APPLY_COST as u128
                        } else {
                            let opb = atom_of(operator_node).unwrap();
                            if opb.as_slice() == [1] {
                                value_stack.push(operand_list0.clone());
                                QUOTE_COST as u128
                            } else {
                                op_stack.push(Op::Apply);
                                value_stack.push(operator_node.clone());
                                let mut operand_list = operand_list0.clone();
                                while !nullp(&operand_list) {
                                    let Sx::P(f, r) = &*operand_list.clone() else {
                                        return Err(RefErr::ImproperList);
                                    };
                                    value_stack.push(cons(f, &args));
                                    op_stack.push(Op::Cons);
                                    op_stack.push(Op::Eval);
                                    op_stack.push(Op::Swap);
                                    operand_list = r.clone();
                                }
                                value_stack.push(nil());
                                1
                            }
                        }
                    }
                }
            }
            Op::Apply => {
                let operand_list = value_stack.pop().unwrap();
                let operator_node = value_stack.pop().unwrap();
                let Some(opb) = atom_of(&operator_node) else { return err("internal error") };
                if opb.as_slice() == [2] {
                    if list_len(&operand_list) != 2 {
                        return err("apply requires exactly 2 parameters");
                    }
                    let new_program = first(&operand_list)?;
                    let new_args = first(&rest(&operand_list)?)?;
                    value_stack.push(cons(&new_program, &new_args));
                    op_stack.push(Op::Eval);
                    APPLY_COST as u128
                } else if opb.as_slice() == [36] {
                    // ---- adapter A2: the softfork guard, as documented in run_program.rs ----
                    let declared = uint_arg(&first(&operand_list)?, 8)? as u128;
                    let remaining = effective_max.saturating_sub(cost);
                    if declared > remaining || declared == 0 {
                        return Err(RefErr::CostExceeded);
                    }
                    // four arguments with a u32 extension; extension 0 or 1 known
                    let known = (|| -> Option<(S, S)> {
                        if list_len(&operand_list) != 4 {
                            return None;
                        }
                        let l = {
                            // the terminator is not inspected
                            let mut v = Vec::new();
                            let mut cur = operand_list.clone();
                            while let Sx::P(a, r) = &*cur.clone() {
                                v.push(a.clone());
                                cur = r.clone();
                            }
                            v
                        };
                        let ext = uint_arg(&l[1], 4).ok()?;
                        if ext > 1 {
                            return None;
                        }
                        Some((l[2].clone(), l[3].clone()))
                    })();
                    match known {
                        None => {
                            // unknown to this node: nil at the declared cost
                            value_stack.push(nil());
                            declared
                        }
                        Some((prg, env)) => {
                            guard_entered = true;
                            guards.push(cost + declared);
                            op_stack.push(Op::ExitGuard);
                            value_stack.push(cons(&prg, &env));
                            op_stack.push(Op::Eval);
                            GUARD_COST as u128
                        }
                    }
                } else {
                    ops_executed += 1;
                    *per_op.entry(opb.clone()).or_insert(0) += 1;
                    let (c, r) = match operator(opb, &operand_list) {
                        Ok(x) => x,
                        Err(e) => return Err(e),
                    };
                    value_stack.push(r);
                    c
                }
            }
            Op::ExitGuard => {
                let expected = guards.pop().unwrap();
                if cost != expected {
                    return err("softfork specified cost mismatch");
                }
                value_stack.pop();
                value_stack.push(nil());
                0
            }
        };
        cost += c;
        let effective_max = guards.last().copied().unwrap_or(max_cost);
        if cost > effective_max {
            return Err(RefErr::CostExceeded);
        }
    }
    let value = value_stack.pop().unwrap();
    Ok(RefOut { cost: u64::try_from(cost).map_err(|_| RefErr::CostExceeded)?, value, ops_executed, per_op, guard_entered })
}

/// build a reference tree from a Dag (sharing preserved through Rc)
pub fn from_dag(d: &crate::dag::Dag) -> S {
    let mut nodes: Vec<S> = Vec::with_capacity(d.n.len());
    for n in &d.n {
        nodes.push(match n {
            crate::dag::N::A(b, _) => atom(b),
            crate::dag::N::P(l, r) => cons(&nodes[*l as usize], &nodes[*r as usize]),
        });
    }
    nodes.last().unwrap().clone()
}

/// intern a reference tree for comparison (memoised by pointer)
pub fn intern(i: &mut crate::dag::Interner, s: &S) -> u32 {
    use std::collections::HashMap;
    let mut memo: HashMap<*const Sx, u32> = HashMap::new();
    enum W {
        Visit(S),
        Build(S),
    }
    let mut st = vec![W::Visit(s.clone())];
    while let Some(w) = st.pop() {
        match w {
            W::Visit(n) => {
                let key = Rc::as_ptr(&n);
                if memo.contains_key(&key) {
                    continue;
                }
                match &*n {
                    Sx::A(b) => {
                        let id = i.atom(b);
                        memo.insert(key, id);
                    }
                    Sx::P(l, r) => {
                        st.push(W::Build(n.clone()));
                        st.push(W::Visit(l.clone()));
                        st.push(W::Visit(r.clone()));
                    }
                }
            }
            W::Build(n) => {
                let key = Rc::as_ptr(&n);
                if let Sx::P(l, r) = &*n {
                    let id = i.pair(memo[&Rc::as_ptr(l)], memo[&Rc::as_ptr(r)]);
                    memo.insert(key, id);
                }
            }
        }
    }
    memo[&Rc::as_ptr(s)]
}
