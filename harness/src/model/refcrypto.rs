//! Independent elliptic-curve primitives for C32, written over `BigUint` from the
//! defining equations (no call into clvmr / blst / k256 / p256):
//! short-Weierstrass arithmetic over Fp and Fp2, ZCash-compressed BLS12-381 G1/G2
//! encodings with every validity rule, subgroup membership by multiplication with
//! the group order, SEC1 public-key decoding and ECDSA verification for secp256k1
//! (with the low-S rule) and secp256r1.

use num_bigint::{BigInt, BigUint, Sign};
use num_integer::Integer;
use num_traits::{One, Zero};
use std::sync::OnceLock;

fn hexn(s: &str) -> BigUint {
    BigUint::parse_bytes(s.as_bytes(), 16).expect("hex constant")
}

// ------------------------------------------------------------------ fields --

pub trait Field: Clone + PartialEq + std::fmt::Debug {
    fn zero_like(&self) -> Self;
    fn one_like(&self) -> Self;
    fn is_zero(&self) -> bool;
    fn add(&self, o: &Self) -> Self;
    fn sub(&self, o: &Self) -> Self;
    fn mul(&self, o: &Self) -> Self;
    fn neg(&self) -> Self;
    fn inv(&self) -> Self;
    fn sqrt(&self) -> Option<Self>;
    fn small(&self, k: u32) -> Self;
    fn sqr(&self) -> Self {
        self.mul(self)
    }
}

#[derive(Clone, PartialEq, Debug)]
pub struct F1 {
    pub v: BigUint,
    pub p: &'static BigUint,
}

impl F1 {
    pub fn new(v: BigUint, p: &'static BigUint) -> F1 {
        F1 { v: v % p, p }
    }
    pub fn pow(&self, e: &BigUint) -> F1 {
        F1 { v: self.v.modpow(e, self.p), p: self.p }
    }
    /// "lexicographically largest" / sign used by the ZCash format: v > (p-1)/2
    pub fn is_large(&self) -> bool {
        self.v > (self.p - 1u32) / 2u32
    }
}

impl Field for F1 {
    fn zero_like(&self) -> Self {
        F1 { v: BigUint::zero(), p: self.p }
    }
    fn one_like(&self) -> Self {
        F1 { v: BigUint::one(), p: self.p }
    }
    fn is_zero(&self) -> bool {
        self.v.is_zero()
    }
    fn add(&self, o: &Self) -> Self {
        F1 { v: (&self.v + &o.v) % self.p, p: self.p }
    }
    fn sub(&self, o: &Self) -> Self {
        F1 { v: (&self.v + self.p - &o.v) % self.p, p: self.p }
    }
    fn mul(&self, o: &Self) -> Self {
        F1 { v: (&self.v * &o.v) % self.p, p: self.p }
    }
    fn neg(&self) -> Self {
        F1 { v: (self.p - &self.v) % self.p, p: self.p }
    }
    fn inv(&self) -> Self {
        // Fermat; 0 maps to 0 (never used on 0)
        self.pow(&(self.p - 2u32))
    }
    fn sqrt(&self) -> Option<Self> {
        // all four primes used here are 3 mod 4
        debug_assert!(self.p % 4u32 == BigUint::from(3u32));
        let r = self.pow(&((self.p + 1u32) / 4u32));
        if r.sqr() == *self { Some(r) } else { None }
    }
    fn small(&self, k: u32) -> Self {
        F1::new(BigUint::from(k), self.p)
    }
}

/// Fp2 = Fp[u]/(u^2+1)
#[derive(Clone, PartialEq, Debug)]
pub struct F2 {
    pub c0: F1,
    pub c1: F1,
}

impl Field for F2 {
    fn zero_like(&self) -> Self {
        F2 { c0: self.c0.zero_like(), c1: self.c0.zero_like() }
    }
    fn one_like(&self) -> Self {
        F2 { c0: self.c0.one_like(), c1: self.c0.zero_like() }
    }
    fn is_zero(&self) -> bool {
        self.c0.is_zero() && self.c1.is_zero()
    }
    fn add(&self, o: &Self) -> Self {
        F2 { c0: self.c0.add(&o.c0), c1: self.c1.add(&o.c1) }
    }
    fn sub(&self, o: &Self) -> Self {
        F2 { c0: self.c0.sub(&o.c0), c1: self.c1.sub(&o.c1) }
    }
    fn mul(&self, o: &Self) -> Self {
        // (a0 + a1 u)(b0 + b1 u) = a0 b0 - a1 b1 + (a0 b1 + a1 b0) u
        F2 { c0: self.c0.mul(&o.c0).sub(&self.c1.mul(&o.c1)), c1: self.c0.mul(&o.c1).add(&self.c1.mul(&o.c0)) }
    }
    fn neg(&self) -> Self {
        F2 { c0: self.c0.neg(), c1: self.c1.neg() }
    }
    fn inv(&self) -> Self {
        // 1/(a0 + a1 u) = (a0 - a1 u)/(a0^2 + a1^2)
        let n = self.c0.sqr().add(&self.c1.sqr()).inv();
        F2 { c0: self.c0.mul(&n), c1: self.c1.neg().mul(&n) }
    }
    fn sqrt(&self) -> Option<Self> {
        let z = self.c0.zero_like();
        if self.c1.is_zero() {
            if let Some(s) = self.c0.sqrt() {
                return Some(F2 { c0: s, c1: z });
            }
            // a0 is a non-residue: sqrt = sqrt(-a0) * u
            let s = self.c0.neg().sqrt()?;
            return Some(F2 { c0: z, c1: s });
        }
        let alpha = self.c0.sqr().add(&self.c1.sqr()).sqrt()?;
        let two_inv = self.c0.small(2).inv();
        let mut delta = self.c0.add(&alpha).mul(&two_inv);
        let x0 = match delta.sqrt() {
            Some(x) => x,
            None => {
                delta = self.c0.sub(&alpha).mul(&two_inv);
                delta.sqrt()?
            }
        };
        let x1 = self.c1.mul(&x0.small(2).mul(&x0).inv());
        let r = F2 { c0: x0, c1: x1 };
        if r.sqr() == *self { Some(r) } else { None }
    }
    fn small(&self, k: u32) -> Self {
        F2 { c0: self.c0.small(k), c1: self.c0.zero_like() }
    }
}

impl F2 {
    /// ZCash ordering: compare c1 first, then c0
    pub fn is_large(&self) -> bool {
        if !self.c1.is_zero() { self.c1.is_large() } else { self.c0.is_large() }
    }
}

// ------------------------------------------------------------------ curves --

/// affine point, `None` = point at infinity
pub type Pt<F> = Option<(F, F)>;

#[derive(Clone, Debug)]
pub struct Curve<F: Field> {
    pub a: F,
    pub b: F,
}

impl<F: Field> Curve<F> {
    pub fn on_curve(&self, p: &Pt<F>) -> bool {
        match p {
            None => true,
            Some((x, y)) => y.sqr() == x.sqr().mul(x).add(&self.a.mul(x)).add(&self.b),
        }
    }
    pub fn neg(&self, p: &Pt<F>) -> Pt<F> {
        p.as_ref().map(|(x, y)| (x.clone(), y.neg()))
    }
    /// affine chord-and-tangent addition (the textbook group law)
    pub fn add(&self, p: &Pt<F>, q: &Pt<F>) -> Pt<F> {
        let (Some((x1, y1)), Some((x2, y2))) = (p, q) else {
            return if p.is_none() { q.clone() } else { p.clone() };
        };
        let lambda = if x1 == x2 {
            if *y1 != *y2 || y1.is_zero() {
                return None;
            }
            x1.sqr().mul(&x1.small(3)).add(&self.a).mul(&y1.small(2).mul(y1).inv())
        } else {
            y2.sub(y1).mul(&x2.sub(x1).inv())
        };
        let x3 = lambda.sqr().sub(x1).sub(x2);
        let y3 = lambda.mul(&x1.sub(&x3)).sub(y1);
        Some((x3, y3))
    }
    pub fn sub(&self, p: &Pt<F>, q: &Pt<F>) -> Pt<F> {
        self.add(p, &self.neg(q))
    }

    // Jacobian (X, Y, Z), x = X/Z^2, y = Y/Z^3; Z = 0 is infinity. Used for scalar multiplication only.
    fn jdbl(&self, p: &(F, F, F)) -> (F, F, F) {
        let (x, y, z) = p;
        if z.is_zero() || y.is_zero() {
            return (x.one_like(), x.one_like(), x.zero_like());
        }
        let y2 = y.sqr();
        let s = x.mul(&y2).mul(&x.small(4));
        let z2 = z.sqr();
        let m = x.sqr().mul(&x.small(3)).add(&self.a.mul(&z2.sqr()));
        let x3 = m.sqr().sub(&s).sub(&s);
        let y3 = m.mul(&s.sub(&x3)).sub(&y2.sqr().mul(&x.small(8)));
        let z3 = y.mul(z).mul(&x.small(2));
        (x3, y3, z3)
    }
    fn jadd(&self, p: &(F, F, F), q: &(F, F, F)) -> (F, F, F) {
        if p.2.is_zero() {
            return q.clone();
        }
        if q.2.is_zero() {
            return p.clone();
        }
        let z1z1 = p.2.sqr();
        let z2z2 = q.2.sqr();
        let u1 = p.0.mul(&z2z2);
        let u2 = q.0.mul(&z1z1);
        let s1 = p.1.mul(&z2z2).mul(&q.2);
        let s2 = q.1.mul(&z1z1).mul(&p.2);
        if u1 == u2 {
            if s1 != s2 {
                return (u1.one_like(), u1.one_like(), u1.zero_like());
            }
            return self.jdbl(p);
        }
        let h = u2.sub(&u1);
        let r = s2.sub(&s1);
        let h2 = h.sqr();
        let h3 = h2.mul(&h);
        let u1h2 = u1.mul(&h2);
        let x3 = r.sqr().sub(&h3).sub(&u1h2).sub(&u1h2);
        let y3 = r.mul(&u1h2.sub(&x3)).sub(&s1.mul(&h3));
        let z3 = h.mul(&p.2).mul(&q.2);
        (x3, y3, z3)
    }
    /// k * P by double-and-add (most significant bit first)
    pub fn mul(&self, p: &Pt<F>, k: &BigUint) -> Pt<F> {
        let Some((x, y)) = p else { return None };
        let base = (x.clone(), y.clone(), x.one_like());
        let mut acc = (x.one_like(), x.one_like(), x.zero_like());
        for i in (0..k.bits()).rev() {
            acc = self.jdbl(&acc);
            if k.bit(i) {
                acc = self.jadd(&acc, &base);
            }
        }
        if acc.2.is_zero() {
            return None;
        }
        let zi = acc.2.inv();
        let zi2 = zi.sqr();
        Some((acc.0.mul(&zi2), acc.1.mul(&zi2).mul(&zi)))
    }
}

// --------------------------------------------------------------- BLS12-381 --

pub struct Bls {
    pub p: &'static BigUint,
    pub r: BigUint,
    pub e1: Curve<F1>,
    pub e2: Curve<F2>,
    pub g1: Pt<F1>,
    pub g2: Pt<F2>,
}

static BLS_P: OnceLock<BigUint> = OnceLock::new();
static BLS: OnceLock<Bls> = OnceLock::new();

pub fn bls() -> &'static Bls {
    BLS.get_or_init(|| {
        let p: &'static BigUint =
            BLS_P.get_or_init(|| hexn("1a0111ea397fe69a4b1ba7b6434bacd764774b84f38512bf6730d2a0f6b0f6241eabfffeb153ffffb9feffffffffaaab"));
        let f = |s: &str| F1::new(hexn(s), p);
        let zero = F1::new(BigUint::zero(), p);
        let four = F1::new(BigUint::from(4u32), p);
        Bls {
            p,
            r: hexn("73eda753299d7d483339d80809a1d80553bda402fffe5bfeffffffff00000001"),
            e1: Curve { a: zero.clone(), b: four.clone() },
            e2: Curve { a: F2 { c0: zero.clone(), c1: zero.clone() }, b: F2 { c0: four.clone(), c1: four } },
            g1: Some((
                f("17f1d3a73197d7942695638c4fa9ac0fc3688c4f9774b905a14e3a3f171bac586c55e83ff97a1aeffb3af00adb22c6bb"),
                f("08b3f481e3aaa0f1a09e30ed741d8ae4fcf5e095d5d00af600db18cb2c04b3edd03cc744a2888ae40caa232946c5e7e1"),
            )),
            g2: Some((
                F2 {
                    c0: f("024aa2b2f08f0a91260805272dc51051c6e47ad4fa403b02b4510b647ae3d1770bac0326a805bbefd48056c8c121bdb8"),
                    c1: f("13e02b6052719f607dacd3a088274f65596bd0d09920b61ab5da61bbdc7f5049334cf11213945d57e5ac7d055d042b7e"),
                },
                F2 {
                    c0: f("0ce5d527727d6e118cc9cdc6da2e351aadfd9baa8cbdd3a76d429a695160d12c923ac9cc3baca289e193548608b82801"),
                    c1: f("0606c4a02ea734cc32acd2b02bc28b99cb3e287e85a763af267492ab572e99ab3f370d275cec1da1aaa9075ff05f79be"),
                },
            )),
        }
    })
}

fn be48(v: &BigUint) -> [u8; 48] {
    let b = v.to_bytes_be();
    let mut out = [0u8; 48];
    out[48 - b.len()..].copy_from_slice(&b);
    out
}

/// ZCash compressed encoding of a G1 point
pub fn g1_encode(p: &Pt<F1>) -> [u8; 48] {
    match p {
        None => {
            let mut o = [0u8; 48];
            o[0] = 0xc0;
            o
        }
        Some((x, y)) => {
            let mut o = be48(&x.v);
            o[0] |= 0x80;
            if y.is_large() {
                o[0] |= 0x20;
            }
            o
        }
    }
}

#[derive(Debug, PartialEq, Eq, Clone, Copy)]
pub enum Reject {
    Length,
    Flags,
    NotInField,
    NotOnCurve,
    NotInSubgroup,
}

/// decode with every rule of the format; the subgroup check is multiplication by r
pub fn g1_decode(b: &[u8]) -> Result<Pt<F1>, Reject> {
    let c = bls();
    if b.len() != 48 {
        return Err(Reject::Length);
    }
    if b[0] & 0x80 == 0 {
        return Err(Reject::Flags); // uncompressed form is not a 48-byte encoding
    }
    if b[0] & 0x40 != 0 {
        // infinity: all other bits must be clear
        if b[0] != 0xc0 || b[1..].iter().any(|x| *x != 0) {
            return Err(Reject::Flags);
        }
        return Ok(None);
    }
    let mut xb = b.to_vec();
    xb[0] &= 0x1f;
    let xv = BigUint::from_bytes_be(&xb);
    if xv >= *c.p {
        return Err(Reject::NotInField);
    }
    let x = F1::new(xv, c.p);
    let rhs = x.sqr().mul(&x).add(&c.e1.b);
    let Some(mut y) = rhs.sqrt() else { return Err(Reject::NotOnCurve) };
    if y.is_large() != (b[0] & 0x20 != 0) {
        y = y.neg();
    }
    let pt = Some((x, y));
    if c.e1.mul(&pt, &c.r).is_some() {
        return Err(Reject::NotInSubgroup);
    }
    Ok(pt)
}

pub fn g2_encode(p: &Pt<F2>) -> [u8; 96] {
    let mut o = [0u8; 96];
    match p {
        None => {
            o[0] = 0xc0;
        }
        Some((x, y)) => {
            o[..48].copy_from_slice(&be48(&x.c1.v));
            o[48..].copy_from_slice(&be48(&x.c0.v));
            o[0] |= 0x80;
            if y.is_large() {
                o[0] |= 0x20;
            }
        }
    }
    o
}

pub fn g2_decode(b: &[u8]) -> Result<Pt<F2>, Reject> {
    let c = bls();
    if b.len() != 96 {
        return Err(Reject::Length);
    }
    if b[0] & 0x80 == 0 {
        return Err(Reject::Flags);
    }
    if b[0] & 0x40 != 0 {
        if b[0] != 0xc0 || b[1..].iter().any(|x| *x != 0) {
            return Err(Reject::Flags);
        }
        return Ok(None);
    }
    let mut hi = b[..48].to_vec();
    hi[0] &= 0x1f;
    let c1 = BigUint::from_bytes_be(&hi);
    let c0 = BigUint::from_bytes_be(&b[48..]);
    if c1 >= *c.p || c0 >= *c.p {
        return Err(Reject::NotInField);
    }
    let x = F2 { c0: F1::new(c0, c.p), c1: F1::new(c1, c.p) };
    let rhs = x.sqr().mul(&x).add(&c.e2.b);
    let Some(mut y) = rhs.sqrt() else { return Err(Reject::NotOnCurve) };
    if y.is_large() != (b[0] & 0x20 != 0) {
        y = y.neg();
    }
    let pt = Some((x, y));
    if c.e2.mul(&pt, &c.r).is_some() {
        return Err(Reject::NotInSubgroup);
    }
    Ok(pt)
}

/// a point on E1 with the given x-seed that is (with overwhelming probability) outside the subgroup
pub fn g1_off_subgroup(seed: u64) -> [u8; 48] {
    let c = bls();
    let mut xv = BigUint::from(seed) * BigUint::from(0x9e3779b97f4a7c15u64) + BigUint::from(5u32);
    loop {
        let x = F1::new(xv.clone(), c.p);
        let rhs = x.sqr().mul(&x).add(&c.e1.b);
        if let Some(y) = rhs.sqrt() {
            let pt = Some((x, y));
            if c.e1.mul(&pt, &c.r).is_some() {
                return g1_encode(&pt);
            }
        }
        xv += 1u32;
    }
}

pub fn g2_off_subgroup(seed: u64) -> [u8; 96] {
    let c = bls();
    let mut xv = BigUint::from(seed) * BigUint::from(0x9e3779b97f4a7c15u64) + BigUint::from(7u32);
    loop {
        let x = F2 { c0: F1::new(xv.clone(), c.p), c1: F1::new(BigUint::from(seed % 1000 + 1), c.p) };
        let rhs = x.sqr().mul(&x).add(&c.e2.b);
        if let Some(y) = rhs.sqrt() {
            let pt = Some((x, y));
            if c.e2.mul(&pt, &c.r).is_some() {
                return g2_encode(&pt);
            }
        }
        xv += 1u32;
    }
}

/// the scalar an operator must use for an integer atom: value mod r, in 0..r
pub fn scalar_mod_r(v: &BigInt) -> BigUint {
    let r = BigInt::from_biguint(Sign::Plus, bls().r.clone());
    let m = v.mod_floor(&r);
    m.to_biguint().expect("non-negative")
}

// -------------------------------------------------------------- secp curves --

pub struct Secp {
    pub p: &'static BigUint,
    pub n: BigUint,
    pub e: Curve<F1>,
    pub g: Pt<F1>,
    pub low_s: bool,
}

static K1_P: OnceLock<BigUint> = OnceLock::new();
static R1_P: OnceLock<BigUint> = OnceLock::new();
static K1: OnceLock<Secp> = OnceLock::new();
static R1: OnceLock<Secp> = OnceLock::new();

pub fn secp256k1() -> &'static Secp {
    K1.get_or_init(|| {
        let p: &'static BigUint = K1_P.get_or_init(|| (BigUint::one() << 256) - (BigUint::one() << 32) - BigUint::from(977u32));
        let f = |s: &str| F1::new(hexn(s), p);
        Secp {
            p,
            n: hexn("fffffffffffffffffffffffffffffffebaaedce6af48a03bbfd25e8cd0364141"),
            e: Curve { a: F1::new(BigUint::zero(), p), b: F1::new(BigUint::from(7u32), p) },
            g: Some((
                f("79be667ef9dcbbac55a06295ce870b07029bfcdb2dce28d959f2815b16f81798"),
                f("483ada7726a3c4655da4fbfc0e1108a8fd17b448a68554199c47d08ffb10d4b8"),
            )),
            low_s: true,
        }
    })
}

pub fn secp256r1() -> &'static Secp {
    R1.get_or_init(|| {
        let p: &'static BigUint = R1_P.get_or_init(|| hexn("ffffffff00000001000000000000000000000000ffffffffffffffffffffffff"));
        let f = |s: &str| F1::new(hexn(s), p);
        Secp {
            p,
            n: hexn("ffffffff00000000ffffffffffffffffbce6faada7179e84f3b9cac2fc632551"),
            e: Curve { a: F1::new(p - 3u32, p), b: f("5ac635d8aa3a93e7b3ebbd55769886bc651d06b0cc53b0f63bce3c3e27d2604b") },
            g: Some((
                f("6b17d1f2e12c4247f8bce6e563a440f277037d812deb33a0f4a13945d898c296"),
                f("4fe342e2fe1a7f9b8ee7eb4a7c0f9e162bce33576b315ececbb6406837bf51f5"),
            )),
            low_s: false,
        }
    })
}

fn be32(v: &BigUint) -> [u8; 32] {
    let b = v.to_bytes_be();
    let mut out = [0u8; 32];
    out[32 - b.len()..].copy_from_slice(&b);
    out
}

impl Secp {
    /// SEC1 v2 section 2.3.4 octet-string-to-point for public keys: 02/03 compressed, 04 uncompressed;
    /// the identity (00) is not a valid public key; nothing else is defined
    pub fn decode_pubkey(&self, b: &[u8]) -> Option<Pt<F1>> {
        match (b.len(), b.first().copied()) {
            (33, Some(t @ (2 | 3))) => {
                let xv = BigUint::from_bytes_be(&b[1..]);
                if xv >= *self.p {
                    return None;
                }
                let x = F1::new(xv, self.p);
                let rhs = x.sqr().mul(&x).add(&self.e.a.mul(&x)).add(&self.e.b);
                let mut y = rhs.sqrt()?;
                if y.v.is_odd() != (t == 3) {
                    y = y.neg();
                }
                Some(Some((x, y)))
            }
            (65, Some(4)) => {
                let xv = BigUint::from_bytes_be(&b[1..33]);
                let yv = BigUint::from_bytes_be(&b[33..]);
                if xv >= *self.p || yv >= *self.p {
                    return None;
                }
                let pt = Some((F1::new(xv, self.p), F1::new(yv, self.p)));
                if self.e.on_curve(&pt) { Some(pt) } else { None }
            }
            _ => None,
        }
    }
    pub fn encode_pubkey(&self, q: &Pt<F1>, compressed: bool) -> Vec<u8> {
        let (x, y) = q.as_ref().expect("finite");
        let mut o = Vec::new();
        if compressed {
            o.push(if y.v.is_odd() { 3 } else { 2 });
            o.extend_from_slice(&be32(&x.v));
        } else {
            o.push(4);
            o.extend_from_slice(&be32(&x.v));
            o.extend_from_slice(&be32(&y.v));
        }
        o
    }
    /// signature parsing: 64 bytes r || s with 1 <= r, s < n
    pub fn parse_sig(&self, sig: &[u8]) -> Option<(BigUint, BigUint)> {
        if sig.len() != 64 {
            return None;
        }
        let r = BigUint::from_bytes_be(&sig[..32]);
        let s = BigUint::from_bytes_be(&sig[32..]);
        if r.is_zero() || s.is_zero() || r >= self.n || s >= self.n {
            return None;
        }
        Some((r, s))
    }
    /// ECDSA verification of a 32-byte prehash (SEC1 4.1.4); secp256k1 additionally requires s <= n/2
    pub fn verify(&self, q: &Pt<F1>, digest: &[u8; 32], r: &BigUint, s: &BigUint) -> bool {
        if self.low_s && *s > (&self.n >> 1) {
            return false;
        }
        let z = BigUint::from_bytes_be(digest) % &self.n;
        let w = s.modpow(&(&self.n - 2u32), &self.n);
        let u1 = (&z * &w) % &self.n;
        let u2 = (r * &w) % &self.n;
        let pt = self.e.add(&self.e.mul(&self.g, &u1), &self.e.mul(q, &u2));
        match pt {
            None => false,
            Some((x, _)) => (x.v % &self.n) == *r,
        }
    }
    /// deterministic-nonce-free signing for test generation: nonce k is supplied by the generator
    pub fn sign(&self, d: &BigUint, k: &BigUint, digest: &[u8; 32]) -> Option<(BigUint, BigUint)> {
        let k = k % &self.n;
        if k.is_zero() {
            return None;
        }
        let (x, _) = self.e.mul(&self.g, &k)?;
        let r = x.v % &self.n;
        if r.is_zero() {
            return None;
        }
        let z = BigUint::from_bytes_be(digest) % &self.n;
        let kinv = k.modpow(&(&self.n - 2u32), &self.n);
        let s = (kinv * ((z + &r * d) % &self.n)) % &self.n;
        if s.is_zero() {
            return None;
        }
        Some((r, s))
    }
}

pub fn sig_bytes(r: &BigUint, s: &BigUint) -> Vec<u8> {
    let mut o = be32(r).to_vec();
    o.extend_from_slice(&be32(s));
    o
}

/// self-test of the constants and formulas (run in the calibration step): generators on their curves, of order r / n,
/// group law consistent with scalar multiplication, encodings round-trip
pub fn self_test() -> Result<(), String> {
    let c = bls();
    if !c.e1.on_curve(&c.g1) {
        return Err("G1 generator not on curve".into());
    }
    if !c.e2.on_curve(&c.g2) {
        return Err("G2 generator not on curve".into());
    }
    if c.e1.mul(&c.g1, &c.r).is_some() {
        return Err("r*G1 != inf".into());
    }
    if c.e2.mul(&c.g2, &c.r).is_some() {
        return Err("r*G2 != inf".into());
    }
    let five = c.e1.mul(&c.g1, &BigUint::from(5u32));
    let two = c.e1.add(&c.g1, &c.g1);
    let three = c.e1.add(&two, &c.g1);
    if c.e1.add(&two, &three) != five {
        return Err("G1 group law inconsistent".into());
    }
    let five2 = c.e2.mul(&c.g2, &BigUint::from(5u32));
    let two2 = c.e2.add(&c.g2, &c.g2);
    let three2 = c.e2.add(&two2, &c.g2);
    if c.e2.add(&two2, &three2) != five2 {
        return Err("G2 group law inconsistent".into());
    }
    if g1_decode(&g1_encode(&five)) != Ok(five.clone()) || g1_decode(&g1_encode(&c.e1.neg(&five))) != Ok(c.e1.neg(&five)) {
        return Err("G1 encoding round trip".into());
    }
    if g2_decode(&g2_encode(&five2)) != Ok(five2.clone()) || g2_decode(&g2_encode(&c.e2.neg(&five2))) != Ok(c.e2.neg(&five2)) {
        return Err("G2 encoding round trip".into());
    }
    for s in [secp256k1(), secp256r1()] {
        if !s.e.on_curve(&s.g) {
            return Err("secp generator not on curve".into());
        }
        if s.e.mul(&s.g, &s.n).is_some() {
            return Err("n*G != inf".into());
        }
        let d = BigUint::from(0x1234567u32);
        let q = s.e.mul(&s.g, &d);
        let digest = [7u8; 32];
        let (r, mut sv) = s.sign(&d, &BigUint::from(0xabcdefu32), &digest).ok_or("sign")?;
        if s.low_s && sv > (&s.n >> 1) {
            sv = &s.n - sv;
        }
        if !s.verify(&q, &digest, &r, &sv) {
            return Err("own signature does not verify".into());
        }
        if s.decode_pubkey(&s.encode_pubkey(&q, true)) != Some(q.clone()) || s.decode_pubkey(&s.encode_pubkey(&q, false)) != Some(q.clone()) {
            return Err("pubkey encoding round trip".into());
        }
    }
    Ok(())
}
