//! Parallel property runner: proptest search over choice tapes, shrinking,
//! replay files, regression replays, known findings and evidence files.

use crate::tape::Tape;
use proptest::strategy::{Strategy, ValueTree};
use proptest::test_runner::{Config, RngSeed, TestCaseError, TestError, TestRunner};
use serde::Serialize;
use serde::de::DeserializeOwned;
use serde_json::{Value, json};
use std::cell::RefCell;
use std::collections::{BTreeMap, BTreeSet, HashSet};
use std::hash::{Hash, Hasher};
use std::panic::{AssertUnwindSafe, catch_unwind};
use std::path::PathBuf;
use std::sync::Mutex;
use std::sync::atomic::{AtomicBool, AtomicU64, Ordering};
use std::time::Instant;

pub const VERIF_ROOT: &str = "/verif";
pub const WORKER_STACK: usize = 1 << 30;

#[derive(Clone, Copy, PartialEq, Eq, Debug)]
pub enum Tier {
    Quick,
    Thorough,
}

#[derive(Debug, Clone)]
pub struct Failure {
    pub msg: String,
    /// oracle-side classification used to match known findings; never "any
    /// failure of this property"
    pub sig: Option<String>,
}

#[derive(Debug, Default, Clone)]
pub struct Verdict {
    pub nontrivial: bool,
    pub labels: Vec<String>,
    pub fail: Option<Failure>,
    pub discard: bool,
}

impl Verdict {
    pub fn pass(nontrivial: bool) -> Self {
        Verdict {
            nontrivial,
            ..Default::default()
        }
    }
    pub fn discard() -> Self {
        Verdict {
            discard: true,
            ..Default::default()
        }
    }
    pub fn fail(msg: impl Into<String>) -> Self {
        Verdict {
            nontrivial: true,
            fail: Some(Failure {
                msg: msg.into(),
                sig: None,
            }),
            ..Default::default()
        }
    }
    pub fn fail_sig(msg: impl Into<String>, sig: impl Into<String>) -> Self {
        Verdict {
            nontrivial: true,
            fail: Some(Failure {
                msg: msg.into(),
                sig: Some(sig.into()),
            }),
            ..Default::default()
        }
    }
    pub fn label(mut self, l: impl Into<String>) -> Self {
        self.labels.push(l.into());
        self
    }
    pub fn with_labels(mut self, l: Vec<String>) -> Self {
        self.labels.extend(l);
        self
    }
}

/// convenience for building verdicts inside test functions
#[macro_export]
macro_rules! vfail {
    ($($arg:tt)*) => { return $crate::engine::Verdict::fail(format!($($arg)*)) };
}

#[derive(serde::Deserialize, Debug, Clone)]
pub struct KnownEntry {
    pub property: String,
    pub id: String,
    pub status: String, // "known" | "fixed"
    pub signature: String,
    #[serde(default)]
    pub witness: Option<String>,
    #[serde(default)]
    pub commit: Option<String>,
    pub text: String,
}

/// distinct non-trivial cases are counted exactly up to this many per worker (memory bound for the thorough tiers)
const DISTINCT_CAP: usize = 3_000_000;

#[derive(Default)]
struct Stats {
    evaluations: u64,
    discards: u64,
    nontrivial: HashSet<u64>,
    /// the per-worker set stopped growing at DISTINCT_CAP (the reported count is then a lower bound)
    capped: bool,
    labels: BTreeMap<String, u64>,
    known_hits: BTreeMap<String, u64>,
    samples: Vec<Value>,
}

impl Stats {
    fn merge(&mut self, o: Stats) {
        self.evaluations += o.evaluations;
        self.discards += o.discards;
        self.nontrivial.extend(o.nontrivial);
        self.capped |= o.capped;
        for (k, v) in o.labels {
            *self.labels.entry(k).or_default() += v;
        }
        for (k, v) in o.known_hits {
            *self.known_hits.entry(k).or_default() += v;
        }
        for s in o.samples {
            if self.samples.len() < 6 {
                self.samples.push(s);
            }
        }
    }
}

struct PartReport {
    name: String,
    stats: Stats,
    exhaustive: bool,
    requested: u64,
}

enum Mode {
    Search,
    Replay {
        part: String,
        case: Value,
        ran: bool,
    },
}

pub struct Runner {
    pub id: String,
    pub tier: Tier,
    pub seed: u64,
    pub threads: usize,
    mode: Mode,
    known: Vec<KnownEntry>,
    regress: Vec<(PathBuf, String, Value)>,
    parts: Vec<PartReport>,
    violations: Vec<(String, String, String)>,
    known_confirmed: BTreeSet<String>,
    start: Instant,
    pub rule: String,
    pub assumptions: Vec<String>,
    pub extra: BTreeMap<String, Value>,
    pub inconclusive: Vec<String>,
    out_counter: u32,
}

thread_local! {
    static PANIC_MSG: RefCell<Option<String>> = const { RefCell::new(None) };
}

pub fn install_panic_hook() {
    std::panic::set_hook(Box::new(|info| {
        let msg = format!("{info}");
        PANIC_MSG.with(|m| *m.borrow_mut() = Some(msg));
    }));
}

pub fn take_panic_msg() -> String {
    PANIC_MSG
        .with(|m| m.borrow_mut().take())
        .unwrap_or_else(|| "panic".to_string())
}

/// run `f`, turning a panic into Err(message)
pub fn guard<T>(f: impl FnOnce() -> T) -> Result<T, String> {
    match catch_unwind(AssertUnwindSafe(f)) {
        Ok(v) => Ok(v),
        Err(_) => Err(take_panic_msg()),
    }
}

fn mix(a: u64, b: u64) -> u64 {
    let mut x = a ^ b.wrapping_mul(0x9e3779b97f4a7c15);
    x ^= x >> 30;
    x = x.wrapping_mul(0xbf58476d1ce4e5b9);
    x ^= x >> 27;
    x = x.wrapping_mul(0x94d049bb133111eb);
    x ^= x >> 31;
    x
}

fn str_hash(s: &str) -> u64 {
    let mut h = std::collections::hash_map::DefaultHasher::new();
    s.hash(&mut h);
    h.finish()
}

pub fn truncate_json(v: &Value, max: usize) -> Value {
    match v {
        Value::String(s) if s.len() > max => {
            Value::String(format!("{}…(+{} chars)", &s[..max], s.len() - max))
        }
        Value::Array(a) => {
            let mut out: Vec<Value> = a.iter().take(60).map(|x| truncate_json(x, max)).collect();
            if a.len() > 60 {
                out.push(Value::String(format!("…(+{} items)", a.len() - 60)));
            }
            Value::Array(out)
        }
        Value::Object(o) => Value::Object(
            o.iter()
                .map(|(k, x)| (k.clone(), truncate_json(x, max)))
                .collect(),
        ),
        _ => v.clone(),
    }
}

fn case_key<C: Serialize>(c: &C) -> u64 {
    let b = serde_json::to_vec(c).unwrap_or_default();
    let mut h = std::collections::hash_map::DefaultHasher::new();
    b.hash(&mut h);
    h.finish()
}

impl Runner {
    pub fn new(id: &str, tier: Tier, seed: u64) -> Self {
        let known: Vec<KnownEntry> =
            std::fs::read_to_string(format!("{VERIF_ROOT}/known_findings.json"))
                .ok()
                .and_then(|s| serde_json::from_str::<Vec<KnownEntry>>(&s).ok())
                .unwrap_or_default()
                .into_iter()
                .filter(|k| k.property == id)
                .collect();
        let mut regress = Vec::new();
        if let Ok(rd) = std::fs::read_dir(format!("{VERIF_ROOT}/replays/regress")) {
            let mut files: Vec<PathBuf> = rd.filter_map(|e| e.ok().map(|e| e.path())).collect();
            files.sort();
            for p in files {
                let name = p.file_name().unwrap().to_string_lossy().to_string();
                if !name.starts_with(&format!("{id}-")) || !name.ends_with(".json") {
                    continue;
                }
                if let Ok(s) = std::fs::read_to_string(&p)
                    && let Ok(v) = serde_json::from_str::<Value>(&s)
                {
                    let part = v["part"].as_str().unwrap_or("").to_string();
                    regress.push((p, part, v["case"].clone()));
                }
            }
        }
        let threads = std::env::var("VERIF_THREADS")
            .ok()
            .and_then(|s| s.parse().ok())
            .unwrap_or(16);
        Runner {
            id: id.to_string(),
            tier,
            seed,
            threads,
            mode: Mode::Search,
            known,
            regress,
            parts: Vec::new(),
            violations: Vec::new(),
            known_confirmed: BTreeSet::new(),
            start: Instant::now(),
            rule: String::new(),
            assumptions: Vec::new(),
            extra: BTreeMap::new(),
            inconclusive: Vec::new(),
            out_counter: 0,
        }
    }

    pub fn set_replay(&mut self, part: String, case: Value) {
        self.mode = Mode::Replay {
            part,
            case,
            ran: false,
        };
    }

    pub fn is_replay(&self) -> bool {
        matches!(self.mode, Mode::Replay { .. })
    }

    /// pick a case count by tier (scaled by VERIF_SCALE, a float, if set)
    pub fn n(&self, quick: u64, thorough: u64) -> u64 {
        // quick tiers are fixed work sized to roughly 10-40 s on 16 cores: the per-part counts written in the checks
        // were chosen when the parts were built; this table scales them to that budget (measured, see DESIGN.md section 10)
        let quick_scale: u64 = match self.id.as_str() {
            "C01" => 45,
            "C02" => 16,
            "C03" => 30,
            "C04" => 160,
            "C05" => 5,
            "C06" => 200,
            "C07" => 80,
            "C08" => 80,
            "C09" => 30,
            "C10" => 12,
            "C11" => 150,
            "C12" => 14,
            "C13" => 8,
            "C14" => 10,
            "C15" => 4,
            "C16" => 10,
            "C18" => 64,
            "C19" => 50,
            "C17" => 2,
            "C20" => 24,
            "C21" => 10,
            "C23" => 6,
            "C24" => 64,
            "C25" => 80,
            "C29" => 15,
            "C30" => 240,
            "C31" => 80,
            _ => 1,
        };
        // thorough = at least 25 times the quick work (minutes instead of seconds)
        let q = quick * quick_scale;
        let base = if self.tier == Tier::Quick { q } else { thorough.max(q * 25) };
        let scale: f64 = std::env::var("VERIF_SCALE")
            .ok()
            .and_then(|s| s.parse().ok())
            .unwrap_or(1.0);
        ((base as f64 * scale) as u64).max(1)
    }

    fn known_sig(&self, sig: &Option<String>) -> Option<String> {
        let s = sig.as_ref()?;
        self.known
            .iter()
            .find(|k| k.status == "known" && &k.signature == s)
            .map(|k| k.signature.clone())
    }

    fn write_replay<C: Serialize>(&mut self, part: &str, case: &C, msg: &str) -> String {
        let dir = format!("{VERIF_ROOT}/build/out");
        let _ = std::fs::create_dir_all(&dir);
        let path = format!("{dir}/{}-{}-{}.json", self.id, self.seed, self.out_counter);
        self.out_counter += 1;
        let v = json!({"property": self.id, "part": part, "message": msg, "case": case});
        let _ = std::fs::write(&path, serde_json::to_string_pretty(&v).unwrap());
        path
    }

    fn report_violation<C: Serialize>(&mut self, part: &str, case: &C, msg: &str) {
        let path = self.write_replay(part, case, msg);
        println!("VIOLATION property={} replay={}", self.id, path);
        println!("  part={part} {}", first_lines(msg, 12));
        self.violations
            .push((part.to_string(), path, msg.to_string()));
    }

    /// Run the regression replays and the single replay case (if in replay
    /// mode) for this part. Returns true when the search should be skipped.
    fn pre_part<C, T>(&mut self, name: &str, test: &T) -> bool
    where
        C: Serialize + DeserializeOwned,
        T: Fn(&C) -> Verdict,
    {
        if let Mode::Replay { part, case, ran } = &mut self.mode {
            if part != name {
                return true;
            }
            *ran = true;
            let case: C = match serde_json::from_value(case.clone()) {
                Ok(c) => c,
                Err(e) => {
                    println!("replay: cannot decode case for part {name}: {e}");
                    self.inconclusive.push(format!("bad replay file: {e}"));
                    return true;
                }
            };
            let v = run_test(test, &case);
            match v.fail {
                Some(f) => {
                    println!("REPLAY FAIL property={} part={name}", self.id);
                    println!("{}", f.msg);
                    if let Some(s) = &f.sig {
                        println!("signature: {s}");
                    }
                    self.violations
                        .push((name.to_string(), "<replay>".into(), f.msg));
                }
                None => println!(
                    "REPLAY PASS property={} part={name} nontrivial={} labels={:?}",
                    self.id, v.nontrivial, v.labels
                ),
            }
            return true;
        }
        // regression replays for this part
        let mine: Vec<(PathBuf, Value)> = self
            .regress
            .iter()
            .filter(|(_, p, _)| p == name)
            .map(|(a, _, c)| (a.clone(), c.clone()))
            .collect();
        for (path, cv) in mine {
            let case: C = match serde_json::from_value(cv) {
                Ok(c) => c,
                Err(e) => {
                    self.inconclusive
                        .push(format!("regress file {path:?} undecodable: {e}"));
                    continue;
                }
            };
            let v = run_test(test, &case);
            if let Some(f) = v.fail {
                if let Some(sig) = self.known_sig(&f.sig) {
                    self.known_confirmed.insert(sig);
                } else {
                    println!(
                        "VIOLATION property={} replay={}",
                        self.id,
                        path.to_string_lossy()
                    );
                    println!("  (regression replay) part={name} {}", first_lines(&f.msg, 12));
                    self.violations.push((
                        name.to_string(),
                        path.to_string_lossy().to_string(),
                        f.msg,
                    ));
                }
            }
        }
        false
    }

    /// Random search: `cases` tapes of up to `tape_len` words, decoded by
    /// `decode`, judged by `test`. Failing cases are shrunk by proptest.
    pub fn run_part<C, D, T>(&mut self, name: &str, cases: u64, tape_len: usize, decode: D, test: T)
    where
        C: Serialize + DeserializeOwned + Clone + std::fmt::Debug + Send,
        D: Fn(&mut Tape) -> C + Sync,
        T: Fn(&C) -> Verdict + Sync,
    {
        if self.pre_part::<C, T>(name, &test) {
            return;
        }
        let nthreads = self.threads.min(cases.max(1) as usize).max(1);
        let per = cases.div_ceil(nthreads as u64);
        let stop = AtomicBool::new(false);
        let known_sigs: Vec<String> = self
            .known
            .iter()
            .filter(|k| k.status == "known")
            .map(|k| k.signature.clone())
            .collect();
        let results: Mutex<Vec<(Stats, Option<(C, String)>)>> = Mutex::new(Vec::new());
        let part_seed = mix(self.seed, str_hash(name) ^ str_hash(&self.id));
        let first_reported = AtomicBool::new(false);
        let id_str = self.id.clone();
        let seed_v = self.seed;
        std::thread::scope(|s| {
            for w in 0..nthreads {
                let stop = &stop;
                let results = &results;
                let decode = &decode;
                let test = &test;
                let known_sigs = &known_sigs;
                let first_reported = &first_reported;
                let id_str = &id_str;
                std::thread::Builder::new()
                    .stack_size(WORKER_STACK)
                    .spawn_scoped(s, move || {
                        let mut cfg = Config::default();
                        cfg.cases = per as u32;
                        cfg.failure_persistence = None;
                        cfg.rng_seed = RngSeed::Fixed(mix(part_seed, w as u64));
                        cfg.max_shrink_iters = 3000;
                        cfg.max_global_rejects = u32::MAX;
                        cfg.verbose = 0;
                        let mut runner = TestRunner::new(cfg);
                        let lo = (tape_len / 2).max(1);
                        let strat =
                            proptest::collection::vec(proptest::num::u32::ANY, lo..=tape_len.max(lo));
                        let stats = RefCell::new(Stats::default());
                        let failed = RefCell::new(false);
                        let fail_msg = RefCell::new(String::new());
                        let res = runner.run(&strat, |tape| {
                            if stop.load(Ordering::Relaxed) && !*failed.borrow() {
                                return Ok(());
                            }
                            let mut t = Tape::new(&tape);
                            let case = decode(&mut t);
                            let t0 = Instant::now();
                            let v = run_test(test, &case);
                            let dt = t0.elapsed().as_secs_f64();
                            if dt > 3.0 {
                                let sv = serde_json::to_string(&case).unwrap_or_default();
                                eprintln!("note: slow case ({dt:.1}s): {}", &sv[..sv.len().min(240)]);
                            }
                            let counting = !*failed.borrow();
                            if v.discard {
                                if counting {
                                    stats.borrow_mut().discards += 1;
                                }
                                return Ok(());
                            }
                            let mut known_hit = None;
                            if let Some(f) = &v.fail
                                && let Some(sig) = &f.sig
                                && known_sigs.contains(sig)
                            {
                                known_hit = Some(sig.clone());
                            }
                            if counting {
                                let mut st = stats.borrow_mut();
                                st.evaluations += 1;
                                for l in &v.labels {
                                    *st.labels.entry(l.clone()).or_default() += 1;
                                }
                                if let Some(sig) = &known_hit {
                                    *st.known_hits.entry(sig.clone()).or_default() += 1;
                                }
                                if v.nontrivial && v.fail.is_none() && st.nontrivial.len() >= DISTINCT_CAP {
                                    st.capped = true;
                                } else if v.nontrivial && v.fail.is_none() {
                                    let k = case_key(&case);
                                    if st.nontrivial.insert(k) && st.samples.len() < 3 {
                                        let n = st.nontrivial.len();
                                        if n == 1 || n == 50 || n == 500 {
                                            let sv = serde_json::to_value(&case).unwrap_or(Value::Null);
                                            st.samples.push(truncate_json(&sv, 160));
                                        }
                                    }
                                }
                            }
                            match v.fail {
                                Some(f) if known_hit.is_none() => {
                                    // report the first failing case at once (before shrinking): if re-executing it during
                                    // shrinking takes the whole process down (a dangling node that reads as a 16 GiB
                                    // atom, a stack overflow), the violation line and a replay file already exist
                                    if !*failed.borrow() && !first_reported.swap(true, Ordering::SeqCst) {
                                        let path = format!("{VERIF_ROOT}/build/out/{id_str}-{seed_v}-first-{name}.json");
                                        let j = json!({"property": id_str, "part": name, "message": format!("(first failing case, not shrunk) {}", f.msg), "case": &case});
                                        let _ = std::fs::create_dir_all(format!("{VERIF_ROOT}/build/out"));
                                        if std::fs::write(&path, serde_json::to_string_pretty(&j).unwrap_or_default()).is_ok() {
                                            println!("VIOLATION property={id_str} replay={path}");
                                            println!("  part={name} (first failing case, before shrinking) {}", f.msg.chars().take(600).collect::<String>());
                                            use std::io::Write;
                                            let _ = std::io::stdout().flush();
                                        }
                                    }
                                    *failed.borrow_mut() = true;
                                    *fail_msg.borrow_mut() = f.msg.clone();
                                    Err(TestCaseError::fail(f.msg))
                                }
                                _ => Ok(()),
                            }
                        });
                        let failure = match res {
                            Ok(()) => None,
                            Err(TestError::Fail(_, tape)) => {
                                stop.store(true, Ordering::Relaxed);
                                let mut t = Tape::new(&tape);
                                let case = decode(&mut t);
                                // re-run to obtain the message of the shrunk case
                                let v = run_test(test, &case);
                                let msg = v
                                    .fail
                                    .map(|f| f.msg)
                                    .unwrap_or_else(|| fail_msg.borrow().clone());
                                Some((case, msg))
                            }
                            Err(TestError::Abort(r)) => {
                                Some((decode(&mut Tape::new(&[])), format!("proptest abort: {r}")))
                            }
                        };
                        results.lock().unwrap().push((stats.into_inner(), failure));
                    })
                    .expect("spawn worker");
            }
        });
        let mut total = Stats::default();
        let mut failures = Vec::new();
        for (st, f) in results.into_inner().unwrap() {
            total.merge(st);
            if let Some(f) = f {
                failures.push(f);
            }
        }
        // report the smallest failing case only (one root cause per run)
        failures.sort_by_key(|(c, _)| serde_json::to_vec(c).map(|v| v.len()).unwrap_or(0));
        if let Some((case, msg)) = failures.into_iter().next() {
            self.report_violation(name, &case, &msg);
        }
        self.parts.push(PartReport {
            name: name.to_string(),
            stats: total,
            exhaustive: false,
            requested: cases,
        });
    }

    /// Exhaustive enumeration of a finite index space.
    pub fn run_enum<C, G, T>(&mut self, name: &str, total: u64, make: G, test: T)
    where
        C: Serialize + DeserializeOwned + Clone + std::fmt::Debug + Send,
        G: Fn(u64) -> C + Sync,
        T: Fn(&C) -> Verdict + Sync,
    {
        if self.pre_part::<C, T>(name, &test) {
            return;
        }
        let nthreads = self.threads.max(1);
        let next = AtomicU64::new(0);
        let chunk: u64 = 4096;
        let first_fail: Mutex<Option<(u64, C, String)>> = Mutex::new(None);
        let known_sigs: Vec<String> = self
            .known
            .iter()
            .filter(|k| k.status == "known")
            .map(|k| k.signature.clone())
            .collect();
        let all: Mutex<Stats> = Mutex::new(Stats::default());
        std::thread::scope(|s| {
            for _ in 0..nthreads {
                let next = &next;
                let first_fail = &first_fail;
                let make = &make;
                let test = &test;
                let all = &all;
                let known_sigs = &known_sigs;
                std::thread::Builder::new()
                    .stack_size(WORKER_STACK)
                    .spawn_scoped(s, move || {
                        let mut st = Stats::default();
                        loop {
                            let lo = next.fetch_add(chunk, Ordering::Relaxed);
                            if lo >= total {
                                break;
                            }
                            let hi = (lo + chunk).min(total);
                            for i in lo..hi {
                                let case = make(i);
                                let v = run_test(test, &case);
                                if v.discard {
                                    st.discards += 1;
                                    continue;
                                }
                                st.evaluations += 1;
                                for l in &v.labels {
                                    *st.labels.entry(l.clone()).or_default() += 1;
                                }
                                if v.nontrivial && v.fail.is_none() {
                                    // indices are distinct by construction
                                    st.nontrivial.insert(i);
                                    if st.samples.len() < 2 && (i % 1009 == 7 || st.nontrivial.len() == 1) {
                                        let sv = serde_json::to_value(&case).unwrap_or(Value::Null);
                                        st.samples.push(truncate_json(&sv, 160));
                                    }
                                }
                                if let Some(f) = v.fail {
                                    if let Some(sig) = &f.sig
                                        && known_sigs.contains(sig)
                                    {
                                        *st.known_hits.entry(sig.clone()).or_default() += 1;
                                        continue;
                                    }
                                    let mut ff = first_fail.lock().unwrap();
                                    if ff.as_ref().map(|x| x.0 > i).unwrap_or(true) {
                                        *ff = Some((i, case, f.msg));
                                    }
                                }
                            }
                        }
                        all.lock().unwrap().merge(st);
                    })
                    .expect("spawn worker");
            }
        });
        if let Some((_, case, msg)) = first_fail.into_inner().unwrap() {
            self.report_violation(name, &case, &msg);
        }
        self.parts.push(PartReport {
            name: name.to_string(),
            stats: all.into_inner().unwrap(),
            exhaustive: true,
            requested: total,
        });
    }

    pub fn label_count(&self, label: &str) -> u64 {
        self.parts
            .iter()
            .map(|p| p.stats.labels.get(label).copied().unwrap_or(0))
            .sum()
    }

    /// Require a minimum count for a label; a generator that does not reach the
    /// interesting class makes the run inconclusive (exit 2), not a violation.
    pub fn require_label(&mut self, label: &str, min: u64) {
        if self.is_replay() {
            return;
        }
        let c = self.label_count(label);
        if c < min {
            self.inconclusive
                .push(format!("label '{label}' seen {c} times, need >= {min}"));
        }
    }

    pub fn finish(self) -> i32 {
        if let Mode::Replay { part, ran, .. } = &self.mode {
            if !ran {
                println!("replay: no part named '{part}' in check {}", self.id);
                return 2;
            }
            return if self.violations.is_empty() { 0 } else { 1 };
        }
        // known findings: print one line per listed finding that still fails
        let mut known_lines = Vec::new();
        for k in &self.known {
            if k.status != "known" {
                continue;
            }
            let hits: u64 = self
                .parts
                .iter()
                .map(|p| p.stats.known_hits.get(&k.signature).copied().unwrap_or(0))
                .sum();
            if self.known_confirmed.contains(&k.signature) || hits > 0 {
                println!(
                    "KNOWN-FINDING: property={} {} [{}; search hits this run: {}]",
                    self.id, k.text, k.id, hits
                );
                known_lines.push(json!({"id": k.id, "signature": k.signature, "search_hits": hits,
                    "witness_still_fails": self.known_confirmed.contains(&k.signature)}));
            } else {
                println!(
                    "note: known finding {} of {} no longer reproduces (witness passes, no search hit)",
                    k.id, self.id
                );
            }
        }
        let evaluations: u64 = self.parts.iter().map(|p| p.stats.evaluations).sum();
        let distinct: u64 = self
            .parts
            .iter()
            .map(|p| p.stats.nontrivial.len() as u64)
            .sum();
        let discards: u64 = self.parts.iter().map(|p| p.stats.discards).sum();
        let mut samples: Vec<Value> = Vec::new();
        let mut parts_json = Vec::new();
        let mut labels_all: BTreeMap<String, u64> = BTreeMap::new();
        for p in &self.parts {
            for s in p.stats.samples.iter().take(3) {
                samples.push(json!({"part": p.name, "case": s}));
            }
            for (k, v) in &p.stats.labels {
                *labels_all.entry(format!("{}:{}", p.name, k)).or_default() += *v;
            }
            parts_json.push(json!({
                "part": p.name,
                "requested": p.requested,
                "evaluations": p.stats.evaluations,
                "distinct_nontrivial": p.stats.nontrivial.len(),
                "distinct_nontrivial_is_lower_bound": p.stats.capped,
                "discarded": p.stats.discards,
                "exhaustive": p.exhaustive,
                "known_finding_hits": p.stats.known_hits,
            }));
        }
        let all_exhaustive = !self.parts.is_empty() && self.parts.iter().all(|p| p.exhaustive);
        let mut coverage = serde_json::Map::new();
        coverage.insert("evaluations".into(), json!(evaluations));
        coverage.insert("distinct_nontrivial".into(), json!(distinct));
        coverage.insert("rule".into(), json!(self.rule));
        coverage.insert("samples".into(), json!(samples));
        coverage.insert("parts".into(), json!(parts_json));
        coverage.insert("labels".into(), json!(labels_all));
        coverage.insert("discarded".into(), json!(discards));
        coverage.insert("known_findings".into(), json!(known_lines));
        coverage.insert("inconclusive".into(), json!(self.inconclusive));
        if all_exhaustive {
            coverage.insert("exhaustive".into(), json!(true));
        }
        for (k, v) in &self.extra {
            coverage.insert(k.clone(), v.clone());
        }
        let ev = json!({
            "property_id": self.id,
            "tier": if self.tier == Tier::Quick { "quick" } else { "thorough" },
            "seed": self.seed,
            "level": "exploration",
            "coverage": Value::Object(coverage),
            "assumptions": self.assumptions,
            "wall_s": self.start.elapsed().as_secs_f64(),
            "violations": self.violations.len(),
        });
        let evdir = format!("{VERIF_ROOT}/evidence");
        let _ = std::fs::create_dir_all(&evdir);
        let _ = std::fs::write(
            format!("{evdir}/{}.json", self.id),
            serde_json::to_string_pretty(&ev).unwrap(),
        );
        println!(
            "{}: tier={:?} seed={} evaluations={} distinct_nontrivial={} discarded={} violations={} wall={:.1}s",
            self.id,
            self.tier,
            self.seed,
            evaluations,
            distinct,
            discards,
            self.violations.len(),
            self.start.elapsed().as_secs_f64()
        );
        if !self.violations.is_empty() {
            return 1;
        }
        if !self.inconclusive.is_empty() {
            for i in &self.inconclusive {
                println!("INCONCLUSIVE: {i}");
            }
            return 2;
        }
        0
    }
}

fn first_lines(s: &str, n: usize) -> String {
    let v: Vec<&str> = s.lines().take(n).collect();
    let mut out = v.join("\n  ");
    if out.len() > 3000 {
        out.truncate(3000);
        out.push('…');
    }
    out
}

fn run_test<C, T: Fn(&C) -> Verdict>(test: &T, case: &C) -> Verdict {
    match catch_unwind(AssertUnwindSafe(|| test(case))) {
        Ok(v) => v,
        Err(_) => Verdict::fail(format!("panic escaped: {}", take_panic_msg())),
    }
}

// keep ValueTree/Strategy imported for potential direct use by checks
#[allow(dead_code)]
fn _unused<S: Strategy>(s: S, r: &mut TestRunner) {
    let _ = s.new_tree(r).map(|t| t.current());
}
