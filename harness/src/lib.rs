pub mod checks;
pub mod dag;
pub mod engine;
pub mod r#gen;
pub mod model;
pub mod tape;
pub mod util;
