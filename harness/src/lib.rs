pub mod alloc_count;
pub mod checks;
pub mod dag;
pub mod engine;
pub mod r#gen;
pub mod model;
pub mod oracle_srv;
pub mod tape;
pub mod util;

#[global_allocator]
static GLOBAL: alloc_count::Counting = alloc_count::Counting;
pub mod fuzzglue;
