//! Choice tape: every random decision of every generator is read from a
//! `Vec<u32>` produced by proptest (or by libFuzzer bytes). Smaller words map
//! to simpler alternatives, an exhausted tape yields zeros, so proptest's
//! generic vector shrinking (drop elements, shrink words towards 0) shrinks the
//! decoded structured case.

pub struct Tape<'a> {
    d: &'a [u32],
    pos: usize,
}

impl<'a> Tape<'a> {
    pub fn new(d: &'a [u32]) -> Self {
        Tape { d, pos: 0 }
    }
    pub fn exhausted(&self) -> bool {
        self.pos >= self.d.len()
    }
    pub fn remaining(&self) -> usize {
        self.d.len().saturating_sub(self.pos)
    }
    #[inline]
    pub fn word(&mut self) -> u32 {
        let v = self.d.get(self.pos).copied().unwrap_or(0);
        self.pos += 1;
        v
    }
    /// uniform in 0..n, monotone in the tape word (0 -> 0)
    #[inline]
    pub fn below(&mut self, n: u32) -> u32 {
        if n <= 1 {
            // still consume a word so that the tape layout does not depend on n
            self.word();
            return 0;
        }
        ((self.word() as u64 * n as u64) >> 32) as u32
    }
    pub fn below_usize(&mut self, n: usize) -> usize {
        self.below(n.min(u32::MAX as usize) as u32) as usize
    }
    /// inclusive range
    pub fn range(&mut self, lo: u32, hi: u32) -> u32 {
        debug_assert!(lo <= hi);
        lo + self.below(hi - lo + 1)
    }
    pub fn u64(&mut self) -> u64 {
        ((self.word() as u64) << 32) | self.word() as u64
    }
    /// true with probability num/den; a zero word gives false
    pub fn chance(&mut self, num: u32, den: u32) -> bool {
        // map so that small words -> false
        let v = self.below(den);
        v >= den - num.min(den)
    }
    pub fn flip(&mut self) -> bool {
        self.chance(1, 2)
    }
    /// weighted choice; index 0 is reached by a zero word
    pub fn weighted(&mut self, w: &[u32]) -> usize {
        let total: u32 = w.iter().sum();
        let mut v = self.below(total.max(1));
        for (i, x) in w.iter().enumerate() {
            if v < *x {
                return i;
            }
            v -= *x;
        }
        w.len() - 1
    }
    pub fn pick<'b, T>(&mut self, xs: &'b [T]) -> &'b T {
        &xs[self.below_usize(xs.len())]
    }
    /// `n` bytes: short strings read one word per byte (shrinkable), long ones
    /// are expanded from one word with a fixed xorshift generator.
    pub fn bytes(&mut self, n: usize) -> Vec<u8> {
        if n <= 12 {
            (0..n).map(|_| (self.word() >> 24) as u8).collect()
        } else {
            let mode = self.below(4);
            let seed = self.word();
            let mut out = Vec::with_capacity(n);
            match mode {
                0 => out.resize(n, (seed >> 24) as u8),
                _ => {
                    let mut s = (seed as u64) << 1 | 1;
                    for _ in 0..n {
                        s ^= s << 13;
                        s ^= s >> 7;
                        s ^= s << 17;
                        out.push((s >> 24) as u8);
                    }
                }
            }
            out
        }
    }
}

pub fn tape_from_bytes(b: &[u8]) -> Vec<u32> {
    b.chunks(4)
        .map(|c| {
            let mut w = [0u8; 4];
            w[..c.len()].copy_from_slice(c);
            u32::from_le_bytes(w)
        })
        .collect()
}
