#![no_main]
//! libFuzzer target: the input is decoded and judged by verif_harness::fuzzglue::decode_and_test("fz_operators", ..) -
//! the oracle of the corresponding check runs inside the target (see /verif/harness/src/fuzzglue.rs).
use libfuzzer_sys::fuzz_target;

fuzz_target!(|data: &[u8]| {
    verif_harness::fuzzglue::run_target("fz_operators", data);
});
