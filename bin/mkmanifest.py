#!/usr/bin/env python3
"""Generate /verif/MANIFEST.json from the table below (single source of truth)."""
import json, subprocess

HOOK_COMMITS = subprocess.run(
    ["git", "-C", "/repo", "log", "--format=%H %s", "--grep=^verif-hooks"], capture_output=True, text=True
).stdout.strip().splitlines()

# id -> (technique, level text, level note)
CHECKS = {
 "C32": ("differential PBT against independent implementations (own SHA-256/Keccak, BigUint curve arithmetic, ZCash decoding, ECDSA, RFC 9380; discrete-log oracle for pairings)", "sha256/keccak256/coinid, point_add, pubkey_for_exp, g1/g2 add/subtract/multiply/negate, g1_map/g2_map, bls_pairing_identity, bls_verify and both secp verify operators are called on structured valid, invalid and edge-case arguments; results and accept/reject decisions must equal those of implementations written independently in the harness (no call into blst/k256/p256): field and curve arithmetic over BigUint, subgroup check by multiplication with r, ZCash compressed decoding with every validity rule, SEC1 decoding, ECDSA verification (k1 low-S), RFC 9380 hash-to-curve; pairing decisions from known discrete logarithms without computing a pairing. The independent code must reproduce every pinned op-tests vector (values and FAILs) and pass a mathematical self-test before each run.", "independent implementations trusted up to their calibration (1500+ pinned vectors incl. 856 hash-to-curve vectors, RFC 9380 vector, on-curve/order self tests); isogeny coefficients are data of the standard validated mathematically at run time; known findings F8, F13 matched by exact signature; RELAXED_BLS negate of invalid encodings not compared"),
 "C01": ("differential PBT against an independent reference-VM port (proptest, generated programs)", "Generated classic-operator programs (typed grammar + near-valid mutations + unknown opcodes) are executed by the implementation and by a function-by-function port of the reference Python clvm (own evaluator, own casts, own costs; adapters A1 div-floor and A2 softfork guard only); success, result tree and cost must agree at several budgets. The port is calibrated on every classic op-tests vector and the classic TEST_CASES before each run. Exploration: no proof of absence; the reference is my port, not the original package (absent from the sandbox).", "reference port trusted up to its calibration on the pinned vectors; error kinds not compared; known findings F6/F12 matched by exact signature"),
 "C09": ("model-based PBT against the published unknown-opcode rule (u128 arithmetic) + constructed overflow corner", "op_unknown and run_program on generated opcode byte strings and argument lists (incl. multi-MiB operands constructed so that base*(multiplier+1) wraps modulo 2^64 to a small value) are compared with a direct transcription of the documented rule computed without wrap-around, both cost models, strict and lenient, several budgets.", "rule transcribed from the comment block in more_ops.rs; known finding F4 matched by signature (exact product >= 2^64 and returned cost == product mod 2^64)"),
 "C10": ("model-based PBT against the documented cost formulas, calibrated on all op-tests vectors", "Every operator of ChiaDialect under both cost models (and MALACHITE) is called on argument lists built for success; the charged cost must equal the documented formula evaluated on argument lengths, limb counts and result length, directly and inside run_program; sha256tree over heavily shared DAGs.", "formulas written from docs/cost-model.md, docs/sha256tree.md and the constant blocks; where prose and pinned vectors differ the vectors decide (calibration step)"),
 "C26": ("differential PBT (Hypothesis) wheel vs. Rust core through an oracle server", "Hypothesis drives (program bytes, env bytes, max_cost, 32-bit flag word) and byte strings through the wheel (run_serialized_chia_program, Program.run_with_cost, deser_*/ser_*, serde.py dispatch, serialized_length, deserialize_as_tree, Program.from_bytes*, to_bytes_2026, LazyNode views) and through the Rust harness built from the same tree; cost/result/error message/error node and all serializer outputs must be identical.", "oracle server = default build of /repo's working tree; wheel built offline from /repo/wheel without maturin; first runs bounded by max_cost <= 2*10^8"),
 "C27": ("round-trip PBT (Hypothesis) over CLVM object kinds", "Generated DAGs wrapped in every CLVMStorage implementation the wheel ships plus plain objects and objects that build fresh children on every access; clvm_tree_to_lazy_node(obj) walked and deser_2026(ser_2026(.)) walked must both equal an independent classic encoding of the tree.", "fixed finding F2 (repo fix commit) kept as regression replay"),
 "C28": ("differential PBT (Hypothesis) pure-Python helpers vs. Rust core", "sexp_to_bytes/stream vs. the Rust classic serializer on every object kind incl. length-prefix boundaries; sexp_from_stream/Program.parse vs. the Rust classic decoder on generated, mutated, prefix-structured and random byte strings (accept iff accept, same tree); int_to_bytes/int_from_bytes vs. Rust canonical integers up to 2^620; curry structure, curry_hash vs. independent tree hash, uncurry inverse; curried run == module run with arguments prepended.", "fixed finding F7 (repo fix commit) kept as regression replay; curry-run compares result/failure, not cost"),
 "C02": ("metamorphic PBT over budgets (proptest, generated programs)", "Generated programs are run at an unlimited budget and then at C, C-1, C+1, u64::MAX, 0 and generated budgets; soundness, monotonicity, tightness and the exact CostExceeded error are asserted. Exploration: finds budget bugs reachable by the generator, no proof of absence.", "program generator reach; pre-run cost for guards uses the implementation itself"),
 "C03": ("metamorphic PBT (allocator history / atom re-encoding)", "The same program is run in a fresh allocator, after a generated allocator history (incl. earlier and failing runs, BLS cache family), repeatedly, re-encoded with other atom representations and with sharing removed; outcomes must be identical.", "cases hitting allocator limits are skipped as the property allows"),
 "C04": ("differential PBT F vs F|ENABLE_GC", "Programs shaped to cross the 1 KiB / 48 byte reclamation thresholds are run with and without ENABLE_GC in identical fresh allocators (also heap-limited); outcome and atom/pair/heap counts must match.", "non-triviality measured by allocated_* counters of the allocator"),
 "C05": ("differential PBT across three separately built binaries", "Each generated case is executed by the default, no-fastpath and counters+pre-eval builds of the harness (line-protocol server) and the outcome records compared.", "three cargo builds of the same harness; observe-only pre/post-eval callback"),
 "C06": ("differential PBT F vs F|MALACHITE", "div/divmod/mod/modpow on generated argument lists and whole programs, with and without MALACHITE: result, cost and error kind identical.", "operand sizes <= 600 bytes (64 for modpow)"),
 "C07": ("implication PBT over flag subsets", "success under F|R implies the same success under F; success under F implies the same under F|RELAXED_BLS; family of flag-sensitive programs.", "LIMIT_HEAP is honoured by a generated heap limit, as callers do"),
 "C08": ("differential PBT aware vs unaware dialect", "ChiaDialect(F) against a wrapper dialect that knows no softfork extension and routes the 4-byte secp opcodes to the unknown-operator rule; aware success implies identical result, cost and allocator counts.", "valid secp triples come from the pinned op-tests vectors"),
 "C11": ("metamorphic PBT F vs F|NEW_COST_MODEL", "programs and direct operator calls under both cost models: both succeed implies equal values.", ""),
 "C12": ("model-based stateful PBT (reference accounting)", "Histories of public allocator calls against a reference accounting model; atom/pair/heap counts compared after every call.", "only live nodes referenced; restores in stack discipline"),
 "C13": ("model-based stateful PBT near the caps", "Histories started from allocators pre-loaded to within 0..50 of the caps and with tiny heap limits; the model predicts success or the cap error per call; decoders compared in pre-loaded allocators.", "caps reached through ghost pre-loading"),
 "C14": ("model-based stateful PBT + exhaustive enumeration", "Content model re-checked after every call (bytes, children, small_number, number, atom_eq); all byte strings up to the bound in every representation; integer constructors at all width boundaries.", ""),
 "C15": ("round-trip PBT with independent encoder", "Serializer output equals an independent classic encoder, decodes back, is canonical, all length functions agree; converse for byte strings; prefix codec via hook up to 2^34.", "atoms >= 4 GiB at prefix level only"),
 "C16": ("differential PBT + exhaustive short inputs + allocation bound", "node_from_bytes, parse_triples, tree_hash_from_stream and an independent decoder/hash on every short string and generated inputs; canonicity equivalence; counting allocator bounds memory.", "memory bound 256*len+4MiB"),
 "C17": ("round-trip PBT with independent decoder", "Back-reference serializer output decoded by both implementation decoders and an independent decoder written from the format document; canonical, never longer, deterministic, re-serializes identically.", ""),
 "C18": ("differential PBT + exhaustive short inputs", "Current vs legacy back-reference decoder vs length probe vs independent decoder on all short strings and structured near-valid inputs.", ""),
 "C19": ("model-based stateful PBT (add/undo histories)", "Histories of add/undo over stages sharing sub-trees; byte snapshots, model assembly decoded by two decoders, four serializers with different salts in lockstep.", "sentinel is a unique pair NodePtr; stack discipline for undo"),
 "C20": ("round-trip + differential PBT with independent 2026 codec", "Serializer output through strict/lenient decoders, independent decoder and length probe; an independent encoder with tampering produces valid-but-different and invalid blobs; all other decoders reject the magic.", "max_atom_len <= 1 MiB on hostile input"),
 "C21": ("exhaustive enumeration + PBT", "Every complete encoding up to the length bound and 56-bit values against a hand-written codec.", ""),
 "C22": ("PBT against independent SHA-256 tree hash", "All Rust tree-hash implementations against the recursive definition over generated DAGs; Python leg via Hypothesis.", ""),
 "C23": ("inequality PBT", "cost(sha256tree) < cost(ChiaLisp program) and both equal the independent hash, both cost models.", "expanded trees <= 40000 nodes"),
 "C24": ("validity PBT with independent counts", "intern_tree output checked against independent distinct-value counts, pairwise distinctness and the independent hash.", ""),
 "C25": ("totality fuzzing/PBT", "Programs (typed, near-valid, random) and direct operator calls with random flag words and budgets: no panic, no InternalError.", "budgets <= 2*10^8 for programs that may loop"),
 "C29": ("PBT over all limits", "Every limit 0..=len+1 (or around token boundaries) for both limited serializers: Ok(bytes) iff len <= L, otherwise exactly OutOfMemory.", ""),
 "C30": ("differential PBT RuntimeDialect vs ChiaDialect", "Programs over the standard table executed by both dialects; result, cost, error kind equal; excluded constructs detected dynamically and discarded.", ""),
 "C31": ("differential + exact-cost PBT", "Aware run vs a dialect that never enters a guard (value, counts, cost); nested guards with exact inside-out costs: nil, 1+80+declared, depth limit 20/21.", ""),
}

props = [json.loads(l)["id"] for l in open("/verif/properties.jsonl")]
checks = []
for pid in props:
    if pid not in CHECKS:
        continue
    tech, text, note = CHECKS[pid]
    checks.append({
        "property_id": pid,
        "quick_cmd": f"bin/check {pid} quick",
        "thorough_cmd": f"bin/check {pid} thorough",
        "evidence_file": f"/verif/evidence/{pid}.json",
        "replay_cmd_template": "bin/check --replay {path}",
        "engine": "py-hypothesis" if pid in ("C26","C27","C28") else "verif-harness",
        "level_claimed": {"category": "exploration", "text": text, "design_ref": f"DESIGN.md section 5, {pid}"},
        "level_note": note or "generated-input search; bounds as stated in the evidence rule",
        "technique": tech,
    })
na = [{"property_id": p, "reason": "check not built (see DESIGN.md)"} for p in props if p not in CHECKS]
manifest = {
    "version": 1,
    "setup_cmd": "bin/setup",
    "hooks": {
        "guard": "cargo feature `verif-hooks` of crate clvmr (off by default)",
        "enable": "the harness depends on clvmr = { path = \"/repo\", features = [\"verif-hooks\"] }; every check rebuilds it from /repo's working tree",
        "baseline_off_cmd": "cd /repo && cargo test --workspace --no-fail-fast --offline",
        "source_commits": [c.split()[0] for c in HOOK_COMMITS],
        "add_only": True,
    },
    "engines": [
        {"name": "verif-harness", "path": "/verif/harness", "serves_properties": [c["property_id"] for c in checks if c["engine"] == "verif-harness"],
         "kind_free_text": "Rust crate: proptest-driven choice-tape generators, independent reference models, parallel runner with shrinking, replay and evidence"},
        {"name": "libfuzzer", "path": "/verif/fuzz", "serves_properties": ["C01", "C16", "C18", "C20", "C25"],
         "kind_free_text": "cargo-fuzz / libFuzzer targets (ASan, -O) used by the thorough tiers through bin/fuzzrun: inputs are decoded into cases of the check and judged by the check's own oracle inside the target (harness/src/fuzzglue.rs); artifacts are re-run on the release harness before being reported"},
        {"name": "py-hypothesis", "path": "/verif/py", "serves_properties": ["C22", "C26", "C27", "C28"],
         "kind_free_text": "Hypothesis checks of the Python wheel (built offline from /repo/wheel), differential against the Rust harness' oracle server (vh serve)"},
    ],
    "checks": checks,
    "not_applicable": na,
    "notes": "exit 0 = held on everything explored (KNOWN-FINDING lines allowed), 1 = VIOLATION, 2 = inconclusive/infrastructure. Known findings: /verif/known_findings.json; regression replays: /verif/replays/regress.",
}
json.dump(manifest, open("/verif/MANIFEST.json", "w"), indent=1)
print(len(checks), "checks;", len(na), "not yet built")
