"""C26 - Python bindings reproduce the Rust core.

Every case is executed through the wheel and through the Rust harness' oracle server
(`vh serve`, default build of the same working tree) and the observable results compared."""
from hypothesis import strategies as st

from pbt import TAPES, Check, Oracle, Violation, encode_atom

import clvm_rs.clvm_rs as native
from clvm_rs import Program
from clvm_rs import serde as pyserde
from clvm_rs.eval_error import EvalError

MAGIC = bytes.fromhex("fdff32303236")
DEFINED = [0x1, 0x2, 0x4, 0x8, 0x10, 0x20, 0x40, 0x100, 0x200, 0x400, 0x800, 0x1000, 0x2000]
MEMPOOL = native.MEMPOOL_MODE

ORA = None


def ora():
    global ORA
    if ORA is None:
        ORA = Oracle()
    return ORA


FLAGS = st.one_of(
    st.sampled_from([0, MEMPOOL, MEMPOOL | 0x40, 0x2000, 0x2000 | MEMPOOL, 0x4, 0x20, 0x400, 0x800, 0x1000]),
    st.lists(st.sampled_from(DEFINED), max_size=6).map(lambda l: sum(set(l))),
    st.integers(0, 2**32 - 1),
    # undefined bits on top of a defined set (the wheel must truncate them)
    st.tuples(st.lists(st.sampled_from(DEFINED), max_size=4), st.integers(0, 2**32 - 1)).map(lambda t: sum(set(t[0])) | (t[1] & 0xFFFFC080)),
)
# max_cost: the search bound keeps looping programs finite; 0 (= unlimited) is only used in a second run
COSTS = st.one_of(st.sampled_from([1, 50, 200, 1000, 11_000_000_000, 11_000_000_000, 2**64 - 1, 2**64 - 1]), st.integers(1, 200_000_000), st.integers(100_000, 200_000_000), st.integers(1, 5000))


def mutate_bytes(draw, b: bytes) -> bytes:
    b = bytearray(b)
    for _ in range(draw(st.integers(0, 3))):
        k = draw(st.integers(0, 5))
        if k == 0 and b:
            i = draw(st.integers(0, len(b) - 1))
            b[i] ^= 1 << draw(st.integers(0, 7))
        elif k == 1 and b:
            del b[draw(st.integers(0, len(b) - 1)):]
        elif k == 2:
            i = draw(st.integers(0, len(b)))
            b[i:i] = draw(st.binary(min_size=1, max_size=3))
        elif k == 3 and b:
            i = draw(st.integers(0, len(b) - 1))
            b[i] = draw(st.sampled_from([0x00, 0x01, 0x7F, 0x80, 0xBF, 0xC0, 0xFB, 0xFC, 0xFE, 0xFF]))
        elif k == 4 and b:
            i = draw(st.integers(0, len(b) - 1))
            del b[i]
        else:
            b += draw(st.binary(max_size=4))
    return bytes(b)


@st.composite
def run_cases(draw):
    kind = draw(st.sampled_from(["gen", "gen", "gen", "gen_mut", "bytes", "sens", "sens"]))
    if kind == "sens":
        # flag-sensitive constructs (operands around the LIMITS sizes, nested guards, ...) with every restriction flag
        r = ora().call(kind="gen", tape=draw(TAPES), what="program_sensitive")
        if r["kind"] == "Ok":
            prog, env = bytes.fromhex(r["value_hex"]), bytes.fromhex(r["err_node"])
            fl = draw(st.one_of(st.just(r["cost"]), st.sampled_from([0x40, 0x40 | MEMPOOL, 0x200, 0x10, 0x1, 0x2, MEMPOOL, 0x2040, 0x2000 | MEMPOOL]), st.lists(st.sampled_from(DEFINED), max_size=6).map(lambda l: sum(set(l)))))
            return (prog, env, draw(COSTS), fl)
        kind = "gen"
    if kind == "bytes":
        r1 = ora().call(kind="gen", tape=draw(TAPES), what="bytes")
        r2 = ora().call(kind="gen", tape=draw(TAPES), what="bytes")
        prog, env = bytes.fromhex(r1["value_hex"]), bytes.fromhex(r2["value_hex"])
    else:
        r = ora().call(kind="gen", tape=draw(TAPES), what="program")
        if r["kind"] != "Ok":
            prog, env = b"\x80", b"\x80"
        else:
            prog, env = bytes.fromhex(r["value_hex"]), bytes.fromhex(r["err_node"])
        if kind == "gen_mut":
            if draw(st.booleans()):
                prog = mutate_bytes(draw, prog)
            else:
                env = mutate_bytes(draw, env)
    return (prog, env, draw(COSTS), draw(FLAGS))


def py_run(prog, env, max_cost, flags):
    """-> ("Ok", cost, result classic bytes) | ("Err", message, error node bytes or None)"""
    try:
        cost, node = native.run_serialized_chia_program(prog, env, max_cost, flags)
    except ValueError as e:
        a = e.args[0]
        if isinstance(a, tuple):
            return ("Err", a[0], walk_lazy(a[1]))
        return ("Err", a, None)
    return ("Ok", cost, walk_lazy(node))


def walk_lazy(node) -> bytes:
    """walk a LazyNode checking its atom/pair views on the way"""
    out = bytearray()
    stack = [node]
    while stack:
        o = stack.pop()
        a, p = o.atom, o.pair
        if (a is None) == (p is None):
            raise Violation(f"LazyNode view: atom={a!r} pair={p!r} (exactly one must be None)")
        if a is not None:
            if not isinstance(a, bytes):
                raise Violation(f"LazyNode.atom is {type(a)}")
            out += encode_atom(a)
        else:
            if not (isinstance(p, tuple) and len(p) == 2 and all(isinstance(x, native.LazyNode) for x in p)):
                raise Violation(f"LazyNode.pair is {p!r}")
            out.append(0xFF)
            stack.append(p[1])
            stack.append(p[0])
        if len(out) > 8_000_000:
            raise Violation("result larger than 8 MB")
    return bytes(out)


def rs_run(prog, env, max_cost, flags):
    r = ora().call(kind="run_bytes", program=prog.hex(), env=env.hex(), flags=flags, max_cost=max_cost)
    if r["kind"] == "PANIC":
        raise Violation(f"the Rust core panicked: {r['msg']}")
    if r["kind"] == "Ok":
        return ("Ok", r["cost"], bytes.fromhex(r["value_hex"]))
    return ("Err", r["msg"], bytes.fromhex(r["err_node"]) if r["err_node"] else None)


def test_run(case):
    prog, env, drawn_cost, flags = case
    max_cost = min(drawn_cost, 200_000_000)
    got = py_run(prog, env, max_cost, flags)
    exp = rs_run(prog, env, max_cost, flags)
    ctx = f"program={prog.hex()} env={env.hex()} max_cost={max_cost} flags={flags:#x}"
    if got[0] != exp[0]:
        raise Violation(f"python {got[:2]} but rust {exp[:2]}\n {ctx}")
    if got[0] == "Ok":
        if got[1] != exp[1]:
            raise Violation(f"cost: python {got[1]} rust {exp[1]}\n {ctx}")
        if got[2] != exp[2]:
            raise Violation(f"result: python {got[2].hex()[:400]} rust {exp[2].hex()[:400]}\n {ctx}")
    else:
        if got[1] != exp[1]:
            raise Violation(f"error message: python {got[1]!r} rust {exp[1]!r}\n {ctx}")
        # a deserialization failure carries no node on the Python side (plain ValueError)
        if got[2] is not None and exp[2] is not None and got[2] != exp[2]:
            raise Violation(f"error node: python {got[2].hex()[:400]} rust {exp[2].hex()[:400]}\n {ctx}")
    labels = ["run:" + got[0]]
    if flags & ~0x3F7F:
        labels.append("undefined flag bits")
    if flags & 0x4:
        labels.append("LIMIT_HEAP")
    if got[0] == "Err":
        labels.append("err:" + str(got[1])[:24])
    # second run through the Program wrapper (program.py: run_with_cost / EvalError adaptation)
    if got[0] == "Ok" and got[1] > 100 and max_cost >= got[1]:
        # the same program must also succeed unlimited (max_cost 0) with the same outcome
        for mc in sorted({0, drawn_cost}):
            again = py_run(prog, env, mc, flags)
            exp0 = rs_run(prog, env, mc, flags)
            if again != exp0:
                raise Violation(f"max_cost={mc}: python {again[:2]} rust {exp0[:2]}\n {ctx}")
        labels.append("rerun unlimited")
    try:
        p = Program.from_bytes(prog) if not prog.startswith(MAGIC) else None
        e = Program.from_bytes(env) if not env.startswith(MAGIC) else None
    except ValueError:
        p = e = None
    if p is not None and e is not None and bytes(p) == prog and bytes(e) == env:
        try:
            c2, r2 = p.run_with_cost(e, max_cost, flags)
            got2 = ("Ok", c2, bytes(r2))
        except EvalError as ee:
            got2 = ("Err", ee.args[0], bytes(ee._sexp))
        if got2[0] != exp[0] or got2[1] != exp[1] or (exp[2] is not None and got2[2] != exp[2]):
            raise Violation(f"Program.run_with_cost: python {got2[:2]} rust {exp[:2]}\n {ctx}")
        labels.append("via Program")
    nt = (got[0] == "Ok" and got[1] > 100) or (got[0] == "Err" and got[2] is not None and got[2] != b"\x80")
    return nt, labels


# ---------------------------------------------------------------- serde --

@st.composite
def blob_cases(draw):
    src = draw(st.sampled_from(["classic", "backrefs", "2026", "tree_ser", "tree_ser_mut", "random", "magic_random"]))
    strict = draw(st.booleans())
    max_atom_len = draw(st.sampled_from([None, None, 0, 1, 8, 64, 1 << 20]))
    if src == "classic":
        b = bytes.fromhex(ora().call(kind="gen", tape=draw(TAPES), what="bytes")["value_hex"])
    elif src == "backrefs":
        b = bytes.fromhex(ora().call(kind="gen", tape=draw(TAPES), what="bytes_backrefs")["value_hex"])
    elif src == "2026":
        r = ora().call(kind="gen", tape=draw(TAPES), what="bytes_2026")
        b = bytes.fromhex(r["value_hex"])
        if draw(st.booleans()):
            strict = r["msg"] == "true"
    elif src in ("tree_ser", "tree_ser_mut"):
        t = bytes.fromhex(ora().call(kind="gen", tape=draw(TAPES), what="tree")["value_hex"] or "80")
        fmt = draw(st.sampled_from(["ser_backrefs", "ser_2026", "ser_legacy"]))
        b = bytes.fromhex(ora().call(kind="serde", func=fmt, data=t.hex())["value_hex"])
        if src == "tree_ser_mut":
            b = mutate_bytes(draw, b)
    elif src == "random":
        b = draw(st.binary(max_size=40))
    else:
        b = MAGIC + draw(st.binary(max_size=40))
    return (b, strict, max_atom_len, src)


def py_deser(fn, b, **kw):
    try:
        n = fn(b, **kw)
    except ValueError as e:
        return ("Err", str(e.args[0]))
    except OverflowError as e:
        return ("Err-overflow", str(e))
    return ("Ok", walk_lazy(n), n)


def rs_serde(func, b, **kw):
    r = ora().call(kind="serde", func=func, data=b.hex(), **kw)
    if r["kind"] == "PANIC":
        raise Violation(f"the Rust core panicked in {func}: {r['msg']} input {b.hex()}")
    if r["kind"] == "Ok":
        return ("Ok", r["value_hex"])
    return ("Err", r["msg"])


def cmp_deser(name, got, exp, b, extra=""):
    if got[0] != exp[0]:
        raise Violation(f"{name}: python {got[:2]!r} rust {exp!r}\n input {b.hex()} {extra}")
    if got[0] == "Ok" and got[1].hex() != exp[1]:
        raise Violation(f"{name}: trees differ: python {got[1].hex()[:300]} rust {exp[1][:300]}\n input {b.hex()} {extra}")
    if got[0] == "Err" and got[1] != exp[1]:
        raise Violation(f"{name}: error messages differ: python {got[1]!r} rust {exp[1]!r}\n input {b.hex()} {extra}")


def test_blob(case):
    b, strict, max_atom_len, src = case
    labels = ["src:" + src]
    kw = {"strict": strict}
    okw = {"strict": strict}
    if max_atom_len is not None:
        kw["max_atom_len"] = max_atom_len
        okw["max_atom_len"] = max_atom_len
    extra = f"strict={strict} max_atom_len={max_atom_len}"

    g = py_deser(native.deser_legacy, b)
    cmp_deser("deser_legacy", g, rs_serde("deser_legacy", b), b)
    accepted = []
    if g[0] == "Ok":
        accepted.append(("legacy", g[2], g[1]))
    g = py_deser(native.deser_backrefs, b)
    cmp_deser("deser_backrefs", g, rs_serde("deser_backrefs", b), b)
    if g[0] == "Ok":
        accepted.append(("backrefs", g[2], g[1]))

    g = py_deser(native.deser_2026, b, **kw)
    e = rs_serde("deser_2026", b, **okw)
    if not b.startswith(MAGIC):
        # documented friendlier message for a missing prefix
        if g[0] != "Err" or e[0] != "Err":
            raise Violation(f"deser_2026 accepted a blob without the magic prefix: {b.hex()}")
        if g[1] != "deser_2026: blob is missing the serde_2026 magic prefix":
            raise Violation(f"deser_2026 without prefix: message {g[1]!r}")
    else:
        cmp_deser("deser_2026", g, e, b, extra)
    if g[0] == "Ok":
        accepted.append(("2026", g[2], g[1]))
        labels.append("2026 accepted")

    g = py_deser(native.deser_auto, b, **kw)
    cmp_deser("deser_auto", g, rs_serde("deser_auto", b, **okw), b, extra)
    if g[0] == "Ok":
        labels.append("auto accepted" + (" (2026)" if b.startswith(MAGIC) else ""))

    # serde.py name dispatch
    for fmt, fn in (("legacy", "deser_legacy"), ("backrefs", "deser_backrefs"), ("2026", "deser_2026"), ("auto", "deser_auto")):
        try:
            n = pyserde.deserialize(b, fmt, max_atom_len=max_atom_len, strict=strict)
            g2 = ("Ok", walk_lazy(n))
        except ValueError as ex:
            g2 = ("Err", str(ex.args[0]))
        e2 = rs_serde(fn, b, **(okw if fmt in ("2026", "auto") else {}))
        if fmt == "2026" and not b.startswith(MAGIC):
            if g2[0] != "Err":
                raise Violation(f"serde.deserialize(2026) accepted a blob without prefix {b.hex()}")
            continue
        cmp_deser(f"serde.deserialize({fmt})", g2, e2, b, extra)

    # serialized_length
    try:
        gl = ("Ok", str(native.serialized_length(b)))
    except ValueError as ex:
        gl = ("Err", str(ex.args[0]))
    el = rs_serde("serialized_length", b)
    if gl != el:
        raise Violation(f"serialized_length: python {gl} rust {el} input {b.hex()}")

    # deserialize_as_tree (parse_triples)
    for with_hash in (True, False):
        try:
            t, h = native.deserialize_as_tree(b, with_hash)
            gt = ("Ok", ";".join(",".join(str(x) for x in tr) for tr in t) + "|" + (" ".join(x.hex() for x in h) if h is not None else ""))
            if (h is None) == with_hash:
                raise Violation(f"deserialize_as_tree(calculate_tree_hashes={with_hash}) returned hashes={h is not None}")
        except ValueError as ex:
            gt = ("Err", str(ex.args[0]))
        et = rs_serde("triples" if with_hash else "triples_nohash", b)
        if gt != et:
            raise Violation(f"deserialize_as_tree({with_hash}): python {gt[0]} {gt[1][:200]} rust {et[0]} {et[1][:200]} input {b.hex()}")

    # serializers on every accepted tree (LazyNode backed by the decoder's allocator)
    for how, node, classic in accepted[:2]:
        for f, fn, okw2, kw2 in (
            ("ser_legacy", native.ser_legacy, {}, {}),
            ("ser_backrefs", native.ser_backrefs, {}, {}),
            ("ser_2026", native.ser_2026, {"level": 0}, {"level": 0}),
            ("ser_2026", native.ser_2026, {"level": 1}, {"level": 1}),
            ("ser_2026", native.ser_2026, {"level": 0xFFFFFFFF}, {"level": 0xFFFFFFFF}),
        ):
            try:
                gs = ("Ok", bytes(fn(node, **kw2)).hex())
            except ValueError as ex:
                gs = ("Err", str(ex.args[0]))
            es = rs_serde(f, classic, **okw2)
            if f == "ser_legacy" and gs[0] == "Ok" and gs[1] != classic.hex():
                raise Violation(f"ser_legacy(deser_{how}(b)) != walk of the LazyNode: {gs[1][:200]} vs {classic.hex()[:200]}")
            if f == "ser_backrefs" and how != "legacy":
                # the byte-exact output depends only on the tree (C17), so decoding through another decoder must not matter
                pass
            if gs != es:
                raise Violation(f"{f}{kw2} on the tree decoded by deser_{how}: python {gs[0]} {gs[1][:300]} rust {es[0]} {es[1][:300]}\n tree {classic.hex()[:300]}")
        # name dispatch of serde.serialize
        for fmt, f in (("legacy", "ser_legacy"), ("backrefs", "ser_backrefs"), ("2026", "ser_2026")):
            gs = bytes(pyserde.serialize(node, fmt)).hex()
            es = rs_serde(f, classic)
            if ("Ok", gs) != es:
                raise Violation(f"serde.serialize({fmt}): python {gs[:300]} rust {es}")
        labels.append("serialized:" + how)

    # Program constructors (program.py)
    for name, fn, accept in (
        ("from_bytes", Program.from_bytes, True),
        ("from_bytes_backrefs", Program.from_bytes_backrefs, not b.startswith(MAGIC)),
        ("from_bytes_2026", Program.from_bytes_2026, b.startswith(MAGIC)),
    ):
        try:
            p = fn(b)
            gp = ("Ok", bytes(p).hex())
        except ValueError as ex:
            gp = ("Err", str(ex.args[0]))
        ep = rs_serde("deser_auto", b)
        if not accept:
            if gp[0] != "Err":
                raise Violation(f"Program.{name} accepted {b.hex()}")
            continue
        if gp[0] != ep[0] or (gp[0] == "Ok" and gp[1] != ep[1]):
            raise Violation(f"Program.{name}: python {gp[0]} {gp[1][:200]} rust {ep[0]} {ep[1][:200]} input {b.hex()}")
        if gp[0] == "Ok":
            # to_bytes_2026 round trip equals the Rust serializer's output for the same tree
            out = p.to_bytes_2026()
            back = rs_serde("deser_2026", out)
            if back != ("Ok", gp[1]):
                raise Violation(f"Program.to_bytes_2026 does not decode to the tree: {out.hex()[:200]} -> {back}")
    nt = bool(accepted) and any(len(c) > 3 for _, _, c in accepted)
    return nt, labels


def to_json_run(c):
    return {"program": c[0].hex(), "env": c[1].hex(), "max_cost": c[2], "flags": c[3]}


def from_json_run(j):
    return (bytes.fromhex(j["program"]), bytes.fromhex(j["env"]), j["max_cost"], j["flags"])


def to_json_blob(c):
    return {"blob": c[0].hex(), "strict": c[1], "max_atom_len": c[2], "src": c[3]}


def from_json_blob(j):
    return (bytes.fromhex(j["blob"]), j["strict"], j["max_atom_len"], j.get("src", "replay"))


def run(tier):
    c = Check("C26", tier)
    c.rule = (
        "part run: (program bytes, environment bytes, max_cost, 32-bit flag word) with programs from the harness' typed program generator (through the oracle "
        "server), byte-mutated and arbitrary classic byte strings; run_serialized_chia_program and Program.run_with_cost vs. the Rust core (node_from_bytes x2, "
        "ChiaDialect(from_bits_truncate), new_limited(500000000) iff LIMIT_HEAP): cost and result bytes, or error message and error node bytes; successful runs are "
        "repeated with max_cost 0. Non-trivial = succeeded with cost > 100 or failed with a non-nil error node. part serde: byte strings (classic / back-reference / "
        "serde_2026 generators of the harness, serializer outputs, mutated, random, magic+random) x strict x max_atom_len through deser_legacy/backrefs/2026/auto, "
        "serde.deserialize, serialized_length, deserialize_as_tree, Program.from_bytes*, and every accepted tree through ser_legacy/ser_backrefs/ser_2026(levels)/"
        "serde.serialize/to_bytes_2026, each compared byte for byte (or error message) with the Rust function; LazyNode atom/pair views are checked on every walk. "
        "Non-trivial = at least one decoder accepted a tree of more than 3 serialized bytes. Distinct by case."
    )
    c.assumptions = ["programs are bounded by max_cost <= 2*10^8 on the first run; max_cost 0 is used only after a bounded success", "the oracle server is the default build of the same /repo working tree"]
    c.run_part("run", run_cases(), test_run, c.n(4000, 80000), to_json_run, from_json_run)
    c.run_part("serde", blob_cases(), test_blob, c.n(4000, 80000), to_json_blob, from_json_blob)
    c.require_label("run:Ok", 300)
    c.require_label("run:Err", 300)
    c.require_label("undefined flag bits", 200)
    c.require_label("LIMIT_HEAP", 100)
    c.require_label("via Program", 300)
    c.require_label("2026 accepted", 100)
    c.require_label("auto accepted (2026)", 100)
    c.require_label("serialized:backrefs", 100)
    return c.finish()


def replay(part, case):
    fn, fj = (test_run, from_json_run) if part == "run" else (test_blob, from_json_blob)
    try:
        nt, labels = fn(fj(case))
        print(f"REPLAY PASS property=C26 part={part} nontrivial={nt} labels={labels}")
        return 0
    except Violation as v:
        print(f"REPLAY FAIL property=C26 part={part}\n{v.msg}\nsignature: {v.sig}")
        return 1
