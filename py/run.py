"""usage: python3-vt py/run.py <ID> quick|thorough | --replay FILE"""
import sys

sys.path.insert(0, "/verif/py")
import json  # noqa: E402


def load(pid):
    import importlib

    return importlib.import_module({"C22": "c22", "C26": "c26", "C27": "c27", "C28": "c28"}[pid])


if __name__ == "__main__":
    if sys.argv[1] == "--replay":
        js = json.load(open(sys.argv[2]))
        sys.exit(load(js["property"]).replay(js["part"], js["case"]))
    sys.exit(load(sys.argv[1]).run(sys.argv[2] if len(sys.argv) > 2 else "quick"))
