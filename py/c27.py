"""C27 - clvm_tree_to_lazy_node preserves any CLVM object."""
import io

from hypothesis import strategies as st

from pbt import Check, Violation, classic_bytes, count_pairs_atoms, node_lists, nodes_from_json, nodes_json, walk_to_bytes

from clvm_rs import Program
from clvm_rs.clvm_rs import clvm_tree_to_lazy_node, deser_2026, deser_legacy, ser_2026
from clvm_rs.clvm_tree import CLVMTree

WRAPPERS = ["plain", "program_to", "program_wrap_lazy", "lazy", "clvmtree", "fresh_children", "program_parse", "mixed_lazy", "mixed_program"]


class Plain:
    """plain Python object with stable children"""

    def __init__(self, atom, pair):
        self.atom = atom
        self.pair = pair


def build_plain(nodes):
    objs = []
    for n in nodes:
        objs.append(Plain(n[1], None) if n[0] == "a" else Plain(None, (objs[n[1]], objs[n[2]])))
    return objs[-1]


class Fresh:
    """pure-Python storage whose .pair builds fresh child objects on every access"""

    def __init__(self, nodes, i):
        self._nodes = nodes
        self._i = i
        n = nodes[i]
        self.atom = n[1] if n[0] == "a" else None

    @property
    def pair(self):
        n = self._nodes[self._i]
        if n[0] == "a":
            return None
        return (Fresh(self._nodes, n[1]), Fresh(self._nodes, n[2]))


def wrap(kind, nodes, blob):
    if kind == "plain":
        return build_plain(nodes)
    if kind == "program_to":
        def conv(i):
            # nested tuples / bytes through Program.to
            stack = [(i, False)]
            vals = {}
            while stack:
                k, ready = stack.pop()
                n = nodes[k]
                if n[0] == "a":
                    vals[k] = n[1]
                elif ready:
                    vals[k] = (vals[n[1]], vals[n[2]])
                elif k not in vals:
                    stack.append((k, True))
                    stack.append((n[1], False))
                    stack.append((n[2], False))
            return vals[i]
        return Program.to(conv(len(nodes) - 1))
    if kind == "program_wrap_lazy":
        return Program.wrap(deser_legacy(blob))
    if kind == "lazy":
        return deser_legacy(blob)
    if kind == "clvmtree":
        return CLVMTree.from_bytes(blob)
    if kind == "fresh_children":
        return Fresh(nodes, len(nodes) - 1)
    if kind == "program_parse":
        return Program.parse(io.BytesIO(blob))
    if kind in ("mixed_lazy", "mixed_program"):
        # plain Python pairs on top; every sub-tree hanging below is a handle from its own deserialize call (its own
        # Rust allocator), so equal handle indices of different allocators meet in one conversion
        objs = []
        top = set()
        # the last third of the node list stays plain (when those nodes are pairs)
        for i, n in enumerate(nodes):
            if n[0] == "p" and i >= (2 * len(nodes)) // 3:
                top.add(i)
        for i, n in enumerate(nodes):
            if i in top:
                objs.append(Plain(None, (objs[n[1]], objs[n[2]])))
            else:
                sub = deser_legacy(classic_bytes(nodes, i))
                objs.append(sub if kind == "mixed_lazy" else Program.wrap(sub))
        return objs[-1]
    raise ValueError(kind)


def test(case):
    nodes, kind = case
    expect = classic_bytes(nodes)
    obj = wrap(kind, nodes, expect)
    try:
        lazy = clvm_tree_to_lazy_node(obj)
        blob = ser_2026(lazy)
        back = deser_2026(blob)
        got = walk_to_bytes(back)
        direct = walk_to_bytes(lazy)
    except Exception as e:
        raise Violation(f"clvm_tree_to_lazy_node / ser_2026 / deser_2026 raised {type(e).__name__}: {e} for wrapper {kind}, tree {expect.hex()}")
    if direct != expect:
        raise Violation(
            f"clvm_tree_to_lazy_node({kind}) returns a different tree:\n expected {expect.hex()}\n got      {direct.hex()}",
            sig="lazy-children-identity-reuse" if kind in ("lazy", "program_wrap_lazy", "fresh_children") else None,
        )
    if got != expect:
        raise Violation(f"deser_2026(ser_2026(clvm_tree_to_lazy_node({kind}))) differs:\n expected {expect.hex()}\n got      {got.hex()}")
    pairs, atoms = count_pairs_atoms(nodes)
    return (pairs >= 2 and atoms >= 3), ["wrapper:" + kind]


def to_json(case):
    return {"nodes": nodes_json(case[0]), "wrapper": case[1]}


def from_json(js):
    return (nodes_from_json(js["nodes"]), js["wrapper"])


def run(tier):
    c = Check("C27", tier)
    c.rule = (
        "trees as DAG node lists (sharing and value-equal copies) wrapped as: plain Python objects, Program.to, Program wrapping LazyNode, raw LazyNode, "
        "CLVMTree, a pure-Python storage whose .pair builds fresh children on every access, Program.parse, and mixed trees (plain Python pairs whose sub-trees are LazyNode / Program(LazyNode) handles from separate deserialize calls, i.e. separate Rust allocators); oracle: clvm_tree_to_lazy_node(obj) walked, and "
        "deser_2026(ser_2026(.)) walked, both equal the independent classic encoding of the tree. Non-trivial = >= 2 pairs and >= 3 distinct atoms; distinct by case."
    )
    strat = st.tuples(node_lists(), st.sampled_from(WRAPPERS))
    c.run_part("wrappers", strat, test, c.n(5000, 60000), to_json, from_json)
    for w in WRAPPERS:
        c.require_label("wrapper:" + w, 100)
    return c.finish()


def replay(part, case):
    try:
        nt, labels = test(from_json(case))
        print(f"REPLAY PASS property=C27 part={part} nontrivial={nt} labels={labels}")
        return 0
    except Violation as v:
        print(f"REPLAY FAIL property=C27 part={part}\n{v.msg}\nsignature: {v.sig}")
        return 1
