"""C28 - pure-Python helpers (ser.py, casts.py, curry_and_treehash.py, program.py) agree with the Rust core."""
import io

from hypothesis import strategies as st

from pbt import TAPES, Check, Oracle, Violation, classic_bytes, count_pairs_atoms, node_lists, nodes_from_json, nodes_json, walk_to_bytes

import clvm_rs.clvm_rs as native
from clvm_rs import Program
from clvm_rs.casts import int_from_bytes, int_to_bytes
from clvm_rs.clvm_tree import CLVMTree
from clvm_rs.eval_error import EvalError
from clvm_rs.ser import sexp_from_stream, sexp_to_bytes, sexp_to_stream

ORA = None


def ora():
    global ORA
    if ORA is None:
        ORA = Oracle()
    return ORA


def rs(func, b, **kw):
    r = ora().call(kind="serde", func=func, data=b.hex(), **kw)
    if r["kind"] == "PANIC":
        raise Violation(f"the Rust core panicked in {func}: {r['msg']} input {b.hex()}")
    if r["kind"] == "Ok":
        return ("Ok", r["value_hex"])
    return ("Err", r["msg"])


class Plain:
    def __init__(self, atom, pair):
        self.atom = atom
        self.pair = pair


def build_plain(nodes):
    objs = []
    for n in nodes:
        objs.append(Plain(n[1], None) if n[0] == "a" else Plain(None, (objs[n[1]], objs[n[2]])))
    return objs[-1]


def build_program(nodes):
    objs = []
    for n in nodes:
        objs.append(Program.new_atom(n[1]) if n[0] == "a" else Program.new_pair(objs[n[1]], objs[n[2]]))
    return objs[-1]


# ------------------------------------------------------------------- ser --

BIG = st.one_of(st.sampled_from([0x3F, 0x40, 0x41, 0x1FFF, 0x2000, 0x2001]), st.sampled_from([0x3F, 0x40, 0x1FFF, 0x2000]), st.sampled_from([0x3F, 0x40, 0x1FFF, 0x2000, 0xFFFFF, 0x100000, 0x100001]))


@st.composite
def ser_cases(draw):
    nodes = draw(node_lists())
    # sometimes replace one atom by a boundary-length atom (length prefixes of 2, 3 and 4 bytes)
    if draw(st.integers(0, 5)) == 0:
        k = draw(st.integers(0, len(nodes) - 1))
        if nodes[k][0] == "a":
            n = draw(BIG)
            nodes = list(nodes)
            nodes[k] = ("a", bytes([draw(st.integers(0, 255))]) * n)
    return (nodes, draw(st.sampled_from(["plain", "program", "program_to", "lazy", "clvmtree", "program_wrap_tree", "program_from_bytes"])))


def big_classic(nodes):
    """independent classic encoding with a size bound"""
    out = bytearray()
    stack = [len(nodes) - 1]
    while stack:
        i = stack.pop()
        n = nodes[i]
        if n[0] == "a":
            b = n[1]
            ln = len(b)
            out += classic_bytes([n])
        else:
            out.append(0xFF)
            stack.append(n[2])
            stack.append(n[1])
        if len(out) > 20_000_000:
            raise ValueError("too big")
    return bytes(out)


def test_ser(case):
    nodes, kind = case
    try:
        indep = big_classic(nodes)
    except ValueError:
        return False, ["too big"]
    if len(indep) > 3_000_000:
        # the shared 1 MiB atoms of a DAG can expand to tens of MB; the walkers of this harness stop at 4 MB
        return False, ["too big"]
    # the Rust classic serializer's bytes for this tree: decode the independent encoding with the Rust decoder, re-serialize
    e = rs("deser_legacy", indep)
    if e[0] != "Ok":
        raise Violation(f"Rust decoder rejects an independently encoded tree: {e} {indep.hex()[:200]}")
    rust = bytes.fromhex(e[1])
    if kind == "plain":
        obj = build_plain(nodes)
    elif kind == "program":
        obj = build_program(nodes)
    elif kind == "program_to":
        obj = Program.to(build_plain(nodes))
    elif kind == "lazy":
        obj = native.deser_legacy(indep)
    elif kind == "clvmtree":
        obj = CLVMTree.from_bytes(indep)
    elif kind == "program_wrap_tree":
        obj = Program.wrap(CLVMTree.from_bytes(indep))
    else:
        obj = Program.from_bytes(indep)
    got = sexp_to_bytes(obj)
    if got != rust:
        raise Violation(f"sexp_to_bytes({kind}) = {got.hex()[:300]} but the Rust classic serializer gives {rust.hex()[:300]}")
    f = io.BytesIO()
    sexp_to_stream(obj, f)
    if f.getvalue() != rust:
        raise Violation(f"sexp_to_stream({kind}) differs from the Rust classic serializer: {f.getvalue().hex()[:300]}")
    if isinstance(obj, Program):
        if bytes(obj) != rust:
            raise Violation(f"bytes(Program) ({kind}) differs from the Rust classic serializer")
        f = io.BytesIO()
        obj.stream(f)
        if f.getvalue() != rust:
            raise Violation(f"Program.stream ({kind}) differs from the Rust classic serializer")
        # a sub-tree serialized after the parent cached its serialization
        if obj.pair is not None:
            l, r = obj.pair
            if b"\xff" + bytes(l) + bytes(r) != rust:
                raise Violation(f"bytes of the children of a Program ({kind}) do not concatenate to the parent's serialization")
    # and back: the pure-Python stream decoder must return the same tree
    back = sexp_from_stream(io.BytesIO(rust), Program.new_pair, Program.new_atom)
    if walk_to_bytes(back) != rust:
        raise Violation(f"sexp_from_stream(serialization) yields a different tree: {walk_to_bytes(back).hex()[:300]} vs {rust.hex()[:300]}")
    pairs, atoms = count_pairs_atoms(nodes)
    mx = max((len(n[1]) for n in nodes if n[0] == "a"), default=0)
    labels = ["kind:" + kind]
    for lim, name in ((0x40, "2-byte prefix"), (0x2000, "3-byte prefix"), (0x100000, "4-byte prefix")):
        if mx >= lim:
            labels.append(name)
    return (pairs >= 1 and mx >= 2), labels


# ----------------------------------------------------------------- deser --

FIRST = st.sampled_from([0x00, 0x01, 0x7F, 0x80, 0x81, 0xBF, 0xC0, 0xC1, 0xDF, 0xE0, 0xEF, 0xF0, 0xF7, 0xF8, 0xFB, 0xFC, 0xFD, 0xFE, 0xFF])


@st.composite
def de_cases(draw):
    kind = draw(st.sampled_from(["gen", "gen", "first", "prefix", "random", "backrefs"]))
    if kind == "gen":
        return bytes.fromhex(ora().call(kind="gen", tape=draw(TAPES), what="bytes")["value_hex"])
    if kind == "backrefs":
        return bytes.fromhex(ora().call(kind="gen", tape=draw(TAPES), what="bytes_backrefs")["value_hex"])
    if kind == "first":
        return bytes([draw(FIRST)]) + draw(st.binary(max_size=10))
    if kind == "prefix":
        # an explicit length prefix of every width (1..7 leading one bits) with a matching / short / long body
        w = draw(st.integers(1, 7))
        size = draw(st.one_of(st.integers(0, 70), st.sampled_from([0x3F, 0x40, 0x1FFF, 0x2000, 0x3FFFFFFFF, 0x400000000, 2**40])))
        bits = (7 - w) + 8 * (w - 1)
        size &= (1 << bits) - 1
        sb = size.to_bytes(w, "big")
        pre = bytes([((0xFF << (8 - w)) & 0xFF) | sb[0]]) + sb[1:]
        if size > 80:
            body = draw(st.binary(max_size=8))
        else:
            body = draw(st.binary(min_size=size, max_size=size))[: max(0, size - draw(st.sampled_from([0, 0, 0, 1])))]
        b = pre + body
        if draw(st.booleans()):
            b = b"\xff" + b + draw(st.sampled_from([b"\x80", b"\x01", b""]))
        return b
    return draw(st.binary(max_size=30))


def test_de(b):
    try:
        t = sexp_from_stream(io.BytesIO(b), Program.new_pair, Program.new_atom)
        got = ("Ok", walk_to_bytes(t).hex())
    except ValueError as ex:
        got = ("Err", str(ex))
    except Exception as ex:  # the contract is ValueError on invalid input
        raise Violation(f"sexp_from_stream raised {type(ex).__name__}: {ex} on {b.hex()}")
    exp = rs("deser_legacy", b)
    if got[0] != exp[0]:
        sig = None
        # known finding F7: a length prefix of seven bytes (first byte 0xfe) is accepted by the Python decoder only
        if got[0] == "Ok" and _has_7byte_prefix(b):
            sig = "python-stream-decoder-accepts-7-byte-length-prefix"
        raise Violation(f"sexp_from_stream: python {got[0]} ({got[1][:120]}) but the Rust classic decoder: {exp[0]} ({exp[1][:120]}) on {b.hex()}", sig=sig)
    if got[0] == "Ok" and got[1] != exp[1]:
        raise Violation(f"sexp_from_stream yields {got[1][:300]} but the Rust classic decoder {exp[1][:300]} on {b.hex()}")
    # Program.parse is the same decoder behind the class interface
    try:
        p = Program.parse(io.BytesIO(b))
        gp = ("Ok", walk_to_bytes(p).hex())
    except ValueError:
        gp = ("Err", "")
    if gp[0] != exp[0] or (gp[0] == "Ok" and gp[1] != exp[1]):
        raise Violation(f"Program.parse: python {gp} rust {exp[0]} on {b.hex()}", sig="python-stream-decoder-accepts-7-byte-length-prefix" if gp[0] == "Ok" and _has_7byte_prefix(b) else None)
    # Program.from_bytes accepts more than the classic form (back-references, trailing bytes); whatever it accepts,
    # bytes(Program) must be the Rust classic serialization of the decoded tree
    try:
        pf = Program.from_bytes(b)
    except ValueError:
        pf = None
    if pf is not None and not b.startswith(b"\xfd\xff2026"):
        ea = rs("deser_backrefs", b)
        if ea[0] == "Ok" and bytes(pf).hex() != ea[1]:
            raise Violation(f"bytes(Program.from_bytes(b)) = {bytes(pf).hex()[:200]} but the Rust classic serialization of the decoded tree is {ea[1][:200]} (input {b.hex()})")
        if ea[0] == "Ok":
            f = io.BytesIO()
            pf.stream(f)
            if f.getvalue().hex() != ea[1]:
                raise Violation(f"Program.from_bytes(b).stream() differs from the Rust classic serialization (input {b.hex()})")
            # embedded in a larger tree the cached bytes are spliced in
            outer = Program.to((pf, pf))
            if bytes(outer).hex() != "ff" + ea[1] + ea[1]:
                raise Violation(f"a Program built from Program.from_bytes(b) serializes to a corrupt stream (input {b.hex()})")
    labels = ["de:" + got[0]]
    if b:
        labels.append("first:%02x" % (b[0] if b[0] >= 0x80 else 0))
    return (got[0] == "Ok" and len(b) > 2) or (got[0] == "Err" and len(b) > 1), labels


def _has_7byte_prefix(b):
    """walk the classic token structure the way the Python decoder does and report whether a 0xfe token head occurs"""
    pos = 0
    pending = 1
    while pending and pos < len(b):
        pending -= 1
        x = b[pos]
        if x == 0xFF:
            pending += 2
            pos += 1
        elif x <= 0x80:
            pos += 1
        else:
            ones = 0
            m = 0x80
            while x & m:
                ones += 1
                m >>= 1
            if ones == 7:
                return True
            size = int.from_bytes(bytes([x & (0xFF >> ones)]) + b[pos + 1: pos + ones], "big")
            pos += ones + size
    return False


# ------------------------------------------------------------------ ints --

INTS = st.one_of(
    st.integers(-300, 300),
    st.tuples(st.integers(0, 620), st.integers(-2, 2), st.booleans()).map(lambda t: (-1 if t[2] else 1) * (2 ** t[0]) + t[1]),
    st.integers(-(2**64), 2**64),
    st.integers(-(2**600), 2**600),
)
INT_BYTES = st.one_of(
    st.binary(max_size=10),
    st.tuples(st.sampled_from([b"", b"\x00", b"\x00\x00", b"\xff", b"\xff\xff", b"\x00\xff", b"\xff\x00", b"\x80", b"\x7f"]), st.binary(max_size=80)).map(lambda t: t[0] + t[1]),
)


def test_int(v):
    got = int_to_bytes(v)
    r = ora().call(kind="int_to_bytes", value=str(v))
    if r["kind"] != "Ok":
        raise RuntimeError(f"oracle int_to_bytes failed: {r}")
    if got.hex() != r["value_hex"]:
        raise Violation(f"int_to_bytes({v}) = {got.hex()} but the Rust canonical encoding is {r['value_hex']}")
    if Program.int_to_bytes(v) != got or bytes(Program.to(v).atom) != got:
        raise Violation(f"Program.int_to_bytes / Program.to({v}) disagree with int_to_bytes")
    if int_from_bytes(got) != v:
        raise Violation(f"int_from_bytes(int_to_bytes({v})) = {int_from_bytes(got)}")
    return abs(v) > 127, ["int:" + ("neg" if v < 0 else "pos"), "len:%d" % min(len(got), 9)]


def test_int_bytes(b):
    got = int_from_bytes(b)
    r = ora().call(kind="int_from_bytes", data=b.hex())
    if r["kind"] != "Ok":
        raise RuntimeError(f"oracle int_from_bytes failed: {r}")
    if str(got) != r["msg"]:
        raise Violation(f"int_from_bytes({b.hex()}) = {got} but the Rust core reads {r['msg']}")
    if Program.int_from_bytes(b) != got or Program.new_atom(b).as_int() != got or int(Program.new_atom(b)) != got:
        raise Violation(f"Program.int_from_bytes/as_int/int disagree with int_from_bytes on {b.hex()}")
    return len(b) > 1, ["intbytes:" + ("redundant" if len(b) > 1 and ((b[0] == 0 and b[1] < 0x80) or (b[0] == 0xFF and b[1] >= 0x80)) else "minimal")]


# ----------------------------------------------------------------- curry --

@st.composite
def curry_cases(draw):
    mod = draw(node_lists(max_nodes=10))
    args = draw(st.lists(node_lists(max_nodes=6), max_size=5))
    return (mod, args)


def tree_hash_rs(b: bytes) -> bytes:
    e = rs("tree_hash", b)
    if e[0] != "Ok":
        raise RuntimeError(f"oracle tree_hash failed {e}")
    return bytes.fromhex(e[1])


def test_curry(case):
    mod_nodes, args_nodes = case
    mod = build_program(mod_nodes)
    args = [build_program(a) for a in args_nodes]
    mod_b = classic_bytes(mod_nodes)
    args_b = [classic_bytes(a) for a in args_nodes]
    curried = mod.curry(*args)
    # expected structure written out independently: (a (q . mod) (c (q . a1) (c (q . a2) ... 1)))
    def cons(l, r):
        return b"\xff" + l + r
    fixed = b"\x01"
    for ab in reversed(args_b):
        fixed = cons(b"\x04", cons(cons(b"\x01", ab), cons(fixed, b"\x80")))
    expect = cons(b"\x02", cons(cons(b"\x01", mod_b), cons(fixed, b"\x80")))
    if bytes(curried) != expect:
        raise Violation(f"curry produced {bytes(curried).hex()[:300]} expected {expect.hex()[:300]}")
    # curry_hash == tree hash (independent SHA-256 tree hash through the harness) of the curried program
    h_expect = tree_hash_rs(expect)
    arg_hashes = [tree_hash_rs(ab) for ab in args_b]
    got = mod.curry_hash(*arg_hashes)
    if got != h_expect:
        raise Violation(f"curry_hash = {got.hex()} but tree hash of the curried program = {h_expect.hex()} (mod {mod_b.hex()[:100]} args {[a.hex()[:60] for a in args_b]})")
    if curried.tree_hash() != h_expect:
        raise Violation(f"curry(...).tree_hash() = {curried.tree_hash().hex()} but independent hash = {h_expect.hex()}")
    # uncurry inverts curry
    m2, a2 = curried.uncurry()
    if a2 is None:
        raise Violation(f"uncurry(curry(mod, {len(args)} args)) reports 'not a curry' for {expect.hex()[:300]}")
    if bytes(m2) != mod_b or [bytes(x) for x in a2] != args_b:
        raise Violation(f"uncurry(curry(m, a...)) = ({bytes(m2).hex()[:100]}, {[bytes(x).hex()[:60] for x in a2]}) expected ({mod_b.hex()[:100]}, {[x.hex()[:60] for x in args_b]})")
    # uncurry of the same bytes parsed by the Rust decoder (LazyNode-backed Program)
    m3, a3 = Program.from_bytes(expect).uncurry()
    if a3 is None or bytes(m3) != mod_b or [bytes(x) for x in a3] != args_b:
        raise Violation("uncurry of a LazyNode-backed curried program differs")
    return len(args) >= 1, ["curry args:%d" % len(args)]


@st.composite
def curry_run_cases(draw):
    r = ora().call(kind="gen", tape=draw(TAPES), what="program")
    if r["kind"] != "Ok":
        return (b"\x01", b"\x80", 0, 0)
    prog, env = bytes.fromhex(r["value_hex"]), bytes.fromhex(r["err_node"])
    return (prog, env, draw(st.integers(0, 6)), draw(st.sampled_from([0, 0, native.MEMPOOL_MODE, 0x2000, 0x400 | 0x800])))


def test_curry_run(case):
    prog_b, env_b, k, flags = case
    mod = Program.from_bytes(prog_b)
    env = Program.from_bytes(env_b)
    # split the environment: the first k elements along the right spine become curried arguments
    args = []
    rest = env
    while len(args) < k and rest.pair is not None:
        args.append(rest.pair[0])
        rest = rest.pair[1]
    LIMIT = 400_000_000

    def run(p, e):
        try:
            c, r = p.run_with_cost(e, LIMIT, flags)
            return ("Ok", bytes(r), c)
        except EvalError as ex:
            return ("Err", ex.args[0], 0)

    direct = run(mod, env)
    curried = mod.curry(*args)
    via = run(curried, rest)
    ctx = f"module {prog_b.hex()[:300]} env {env_b.hex()[:300]} curried args {len(args)} flags {flags:#x}"
    if "cost exceeded" in str(direct[1]) or "cost exceeded" in str(via[1]):
        return False, ["cost bound hit"]
    if direct[0] != via[0]:
        raise Violation(f"running the curried program: {via[:2]} but the module on the full environment: {direct[:2]}\n {ctx}")
    if direct[0] == "Ok":
        if direct[1] != via[1]:
            raise Violation(f"results differ: curried {via[1].hex()[:300]} direct {direct[1].hex()[:300]}\n {ctx}")
        # the wrapper costs exactly: a (90) + quote mod (20) + per argument c(50)+quote(20)+eval(1) ... not asserted; only ordering
        if via[2] < direct[2]:
            raise Violation(f"the curried program is cheaper ({via[2]}) than the module itself ({direct[2]})\n {ctx}")
    return (direct[0] == "Ok" and len(args) >= 1 and direct[2] > 100), ["curry-run:" + direct[0], "k=%d" % len(args)]


def run(tier):
    c = Check("C28", tier)
    c.rule = (
        "ser: DAG node lists (atoms incl. length-prefix boundaries up to 1 MiB+1) wrapped as plain objects / Program / Program.to / LazyNode / CLVMTree / "
        "Program(CLVMTree) / Program.from_bytes: sexp_to_bytes, sexp_to_stream, bytes(Program), Program.stream == bytes of the Rust classic serializer for the same "
        "tree, and sexp_from_stream of them returns the tree (non-trivial: >= 1 pair and an atom >= 2 bytes). de: byte strings (harness classic generator incl. "
        "mutations, every first-byte class, explicit length prefixes of width 1..8, random): sexp_from_stream/Program.parse accept iff the Rust classic decoder "
        "accepts, same tree (non-trivial: accepted > 2 bytes or rejected > 1 byte). ints: int_to_bytes(v) == Rust canonical encoding for +-2^k+-d (k <= 620), "
        "random up to 2^600; int_from_bytes(b) == Rust value for arbitrary and redundantly padded atoms. curry: modules and 0..5 argument trees: curry == the "
        "documented structure, curry_hash(arg hashes) == independent tree hash of it, uncurry inverts (also on LazyNode-backed programs). curry-run: generated "
        "programs with their environments: the first k environment elements are curried in; running the curried program on the rest == running the module on the "
        "full environment (result; both fail alike). Distinct by case."
    )
    c.assumptions = ["curry-run: cases where either run hits the 4*10^8 cost bound are not compared (counted under label 'cost bound hit')"]
    c.run_part("ser", ser_cases(), test_ser, c.n(2500, 40000), lambda x: {"nodes": nodes_json(x[0]), "kind": x[1]}, lambda j: (nodes_from_json(j["nodes"]), j["kind"]))
    c.run_part("de", de_cases(), test_de, c.n(6000, 150000), lambda b: {"bytes": b.hex()}, lambda j: bytes.fromhex(j["bytes"]))
    c.run_part("int_to_bytes", INTS, test_int, c.n(4000, 100000), lambda v: {"value": str(v)}, lambda j: int(j["value"]))
    c.run_part("int_from_bytes", INT_BYTES, test_int_bytes, c.n(4000, 100000), lambda b: {"bytes": b.hex()}, lambda j: bytes.fromhex(j["bytes"]))
    c.run_part("curry", curry_cases(), test_curry, c.n(1500, 30000), lambda x: {"mod": nodes_json(x[0]), "args": [nodes_json(a) for a in x[1]]}, lambda j: (nodes_from_json(j["mod"]), [nodes_from_json(a) for a in j["args"]]))
    c.run_part(
        "curry_run",
        curry_run_cases(),
        test_curry_run,
        c.n(2500, 50000),
        lambda x: {"program": x[0].hex(), "env": x[1].hex(), "k": x[2], "flags": x[3]},
        lambda j: (bytes.fromhex(j["program"]), bytes.fromhex(j["env"]), j["k"], j["flags"]),
    )
    c.require_label("de:Ok", 500)
    c.require_label("de:Err", 500)
    c.require_label("first:fe", 30)
    c.require_label("3-byte prefix", 20)
    c.require_label("curry-run:Ok", 200)
    return c.finish()


PARTS = {
    "ser": (test_ser, lambda j: (nodes_from_json(j["nodes"]), j["kind"])),
    "de": (test_de, lambda j: bytes.fromhex(j["bytes"])),
    "int_to_bytes": (test_int, lambda j: int(j["value"])),
    "int_from_bytes": (test_int_bytes, lambda j: bytes.fromhex(j["bytes"])),
    "curry": (test_curry, lambda j: (nodes_from_json(j["mod"]), [nodes_from_json(a) for a in j["args"]])),
    "curry_run": (test_curry_run, lambda j: (bytes.fromhex(j["program"]), bytes.fromhex(j["env"]), j["k"], j["flags"])),
}


def replay(part, case):
    fn, fj = PARTS[part]
    try:
        nt, labels = fn(fj(case))
        print(f"REPLAY PASS property=C28 part={part} nontrivial={nt} labels={labels}")
        return 0
    except Violation as v:
        print(f"REPLAY FAIL property=C28 part={part}\n{v.msg}\nsignature: {v.sig}")
        return 1
