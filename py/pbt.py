"""Hypothesis-driven check runner for the Python bindings (C22 leg, C26, C27, C28).

Same contract as the Rust engine: exit 0 = held on everything explored (known findings
allowed), 1 = VIOLATION line printed, 2 = infrastructure / inconclusive. A run is a
function of the code and VERIF_SEED (hypothesis @seed, no example database)."""

import hashlib
import json
import os
import subprocess
import sys
import time

sys.path.insert(0, "/verif/build/pywheel")

from hypothesis import HealthCheck, Phase, given, seed, settings  # noqa: E402
from hypothesis import strategies as st  # noqa: E402

ROOT = "/verif"
VH = ROOT + "/build/target/release/vh"


class Violation(Exception):
    def __init__(self, msg, sig=None):
        super().__init__(msg)
        self.msg = msg
        self.sig = sig


class Oracle:
    """line-protocol client of the Rust harness (default build): the Rust core's answers"""

    def __init__(self):
        self.p = subprocess.Popen([VH, "serve"], stdin=subprocess.PIPE, stdout=subprocess.PIPE, text=True, bufsize=1)

    def call(self, **req):
        self.p.stdin.write(json.dumps(req) + "\n")
        self.p.stdin.flush()
        line = self.p.stdout.readline()
        if not line:
            raise RuntimeError("oracle server died")
        return json.loads(line)

    def close(self):
        try:
            self.p.kill()
        except Exception:
            pass


# ------------------------------------------------------------------ trees --

def encode_atom(b: bytes) -> bytes:
    n = len(b)
    if n == 0:
        return b"\x80"
    if n == 1 and b[0] <= 0x7F:
        return b
    if n < 0x40:
        return bytes([0x80 | n]) + b
    if n < 0x2000:
        return bytes([0xC0 | (n >> 8), n & 0xFF]) + b
    if n < 0x100000:
        return bytes([0xE0 | (n >> 16), (n >> 8) & 0xFF, n & 0xFF]) + b
    if n < 0x8000000:
        return bytes([0xF0 | (n >> 24), (n >> 16) & 0xFF, (n >> 8) & 0xFF, n & 0xFF]) + b
    raise ValueError("atom too long for this encoder")


def classic_bytes(nodes, root=None) -> bytes:
    """independent classic encoder over a node list [("a", bytes) | ("p", i, j)]"""
    if root is None:
        root = len(nodes) - 1
    out = bytearray()
    stack = [root]
    while stack:
        i = stack.pop()
        n = nodes[i]
        if n[0] == "a":
            out += encode_atom(n[1])
        else:
            out.append(0xFF)
            stack.append(n[2])
            stack.append(n[1])
        if len(out) > 4_000_000:
            raise ValueError("too big")
    return bytes(out)


def walk_to_bytes(obj) -> bytes:
    """serialize anything with the atom/pair protocol (LazyNode, Program, ...) by walking it"""
    out = bytearray()
    stack = [obj]
    while stack:
        o = stack.pop()
        a = o.atom
        if a is not None:
            out += encode_atom(bytes(a))
        else:
            l, r = o.pair
            out.append(0xFF)
            stack.append(r)
            stack.append(l)
        if len(out) > 4_000_000:
            raise ValueError("too big")
    return bytes(out)


ATOMS = st.one_of(
    st.integers(0, 40).map(lambda v: bytes([v]) if v else b""),
    st.binary(max_size=6),
    st.binary(min_size=30, max_size=34),
    st.binary(max_size=70),
    st.sampled_from([b"", b"\x00", b"\x01", b"\x7f", b"\x80", b"\xff", b"\x00\x80", b"\x00\xff", b"\xff\x7f", b"a" * 63, b"a" * 64, b"b" * 65]),
)


@st.composite
def node_lists(draw, max_nodes=24):
    """a DAG as a node list (children precede parents; root is the last node): sharing and equal copies occur"""
    n_atoms = draw(st.integers(1, 6))
    nodes = [("a", draw(ATOMS)) for _ in range(n_atoms)]
    size = [1] * n_atoms  # expanded (tree) size: bounded so that walks over unshared copies stay cheap
    n_pairs = draw(st.integers(0, max_nodes))
    for _ in range(n_pairs):
        k = len(nodes)
        # bias to recent nodes so that the structure is connected
        i = draw(st.integers(0, k - 1))
        j = draw(st.integers(max(0, k - 4), k - 1)) if draw(st.booleans()) else draw(st.integers(0, k - 1))
        if draw(st.booleans()):
            i, j = j, i
        if size[i] + size[j] + 1 > 4000:
            # keep the larger child, pair it with an atom
            if size[i] >= size[j]:
                j = draw(st.integers(0, n_atoms - 1))
            else:
                i = draw(st.integers(0, n_atoms - 1))
        if size[i] + size[j] + 1 > 8000:
            i = j = draw(st.integers(0, n_atoms - 1))
        nodes.append(("p", i, j))
        size.append(size[i] + size[j] + 1)
    return nodes


def nodes_json(nodes):
    return [n[1].hex() if n[0] == "a" else [n[1], n[2]] for n in nodes]


def nodes_from_json(js):
    return [("a", bytes.fromhex(x)) if isinstance(x, str) else ("p", x[0], x[1]) for x in js]


def count_pairs_atoms(nodes):
    seen = set()
    stack = [len(nodes) - 1]
    atoms = set()
    pairs = 0
    while stack:
        i = stack.pop()
        if i in seen:
            continue
        seen.add(i)
        n = nodes[i]
        if n[0] == "a":
            atoms.add(n[1])
        else:
            pairs += 1
            stack.append(n[1])
            stack.append(n[2])
    return pairs, len(atoms)


def _expand(seed: int, n: int):
    """deterministic expansion of a generated (seed, n) into n tape words (splitmix64); a pure function of generated values"""
    out = []
    x = seed & 0xFFFFFFFFFFFFFFFF
    for _ in range(n):
        x = (x + 0x9E3779B97F4A7C15) & 0xFFFFFFFFFFFFFFFF
        z = x
        z = ((z ^ (z >> 30)) * 0xBF58476D1CE4E5B9) & 0xFFFFFFFFFFFFFFFF
        z = ((z ^ (z >> 27)) * 0x94D049BB133111EB) & 0xFFFFFFFFFFFFFFFF
        z ^= z >> 31
        out.append(z >> 32)
    return out


# choice tapes for the Rust generators behind the oracle server: a pseudo-random word sequence of generated length and seed
# (an exhausted tape reads zeros = simplest alternatives, so shrinking the length simplifies the decoded case)
TAPES = st.tuples(st.integers(0, 2**64 - 1), st.one_of(st.integers(0, 600), st.just(600), st.just(600))).map(lambda t: _expand(t[0], t[1]))


# ----------------------------------------------------------------- runner --

class Check:
    def __init__(self, pid, tier, merge=False):
        self.pid = pid
        self.tier = tier
        self.seed = int(os.environ.get("VERIF_SEED", "20260921"))
        self.start = time.time()
        self.parts = []
        self.violations = []
        self.rule = ""
        self.assumptions = []
        self.merge = merge
        self.inconclusive = []
        self.known = []
        try:
            for k in json.load(open(ROOT + "/known_findings.json")):
                if k["property"] == pid and k["status"] == "known":
                    self.known.append(k)
        except Exception:
            pass
        self.known_hits = {}
        self.known_confirmed = set()
        self.out_counter = 0

    def n(self, quick, thorough):
        scale = float(os.environ.get("VERIF_SCALE", "1"))
        return max(1, int((quick if self.tier == "quick" else thorough) * scale))

    def _is_known(self, sig):
        return sig is not None and any(k["signature"] == sig for k in self.known)

    def _write_replay(self, part, case, msg):
        d = ROOT + "/build/out"
        os.makedirs(d, exist_ok=True)
        path = f"{d}/{self.pid}-py-{self.seed}-{self.out_counter}.json"
        self.out_counter += 1
        json.dump({"property": self.pid, "engine": "py", "part": part, "message": msg, "case": case}, open(path, "w"), indent=1)
        return path

    def regress(self, part, from_json, test_fn):
        """replay committed regression cases for this part"""
        d = ROOT + "/replays/regress"
        if not os.path.isdir(d):
            return
        for name in sorted(os.listdir(d)):
            if not (name.startswith(self.pid + "-") and name.endswith(".json")):
                continue
            js = json.load(open(f"{d}/{name}"))
            if js.get("part") != part:
                continue
            try:
                test_fn(from_json(js["case"]))
            except Violation as v:
                if self._is_known(v.sig):
                    self.known_confirmed.add(v.sig)
                else:
                    print(f"VIOLATION property={self.pid} replay={d}/{name}")
                    print("  (regression replay) " + v.msg[:1500])
                    self.violations.append((part, f"{d}/{name}", v.msg))

    def run_part(self, name, strategy, test_fn, examples, to_json, from_json=None):
        """test_fn(case) -> (nontrivial: bool, labels: list[str]); raises Violation"""
        if from_json is not None:
            self.regress(name, from_json, test_fn)
        stats = {"evaluations": 0, "nontrivial": set(), "labels": {}, "samples": [], "failed": False, "last_fail": None}

        @settings(
            max_examples=examples,
            database=None,
            deadline=None,
            suppress_health_check=list(HealthCheck),
            phases=[Phase.generate, Phase.shrink],
            report_multiple_bugs=False,
            print_blob=False,
        )
        @seed(self.seed ^ int(hashlib.sha256(name.encode()).hexdigest()[:8], 16))
        @given(strategy)
        def prop(case):
            try:
                nt, labels = test_fn(case)
            except Violation as v:
                if self._is_known(v.sig):
                    if not stats["failed"]:
                        self.known_hits[v.sig] = self.known_hits.get(v.sig, 0) + 1
                        stats["evaluations"] += 1
                    return
                stats["failed"] = True
                stats["last_fail"] = (case, v)
                raise
            if stats["failed"]:
                return
            stats["evaluations"] += 1
            for l in labels:
                stats["labels"][l] = stats["labels"].get(l, 0) + 1
            if nt:
                js = to_json(case)
                key = hashlib.sha256(json.dumps(js, sort_keys=True).encode()).hexdigest()
                if key not in stats["nontrivial"]:
                    stats["nontrivial"].add(key)
                    if len(stats["samples"]) < 3 and len(stats["nontrivial"]) in (1, 20, 200):
                        stats["samples"].append(_truncate(js))

        try:
            prop()
        except Violation as v:
            case, v2 = stats["last_fail"]
            path = self._write_replay(name, to_json(case), v2.msg)
            print(f"VIOLATION property={self.pid} replay={path}")
            print("  part=" + name + " " + v2.msg[:2000])
            self.violations.append((name, path, v2.msg))
        except Exception as e:
            if stats["last_fail"] is not None:
                # Hypothesis could not re-execute the failure identically (e.g. it depends on which object addresses the
                # process re-uses): the first observed failure is a violation of the property all the same
                case, v2 = stats["last_fail"]
                path = self._write_replay(name, to_json(case), v2.msg)
                print(f"VIOLATION property={self.pid} replay={path}")
                print("  part=" + name + " (failure depends on process history; not reproduced on immediate re-execution) " + v2.msg[:2000])
                self.violations.append((name, path, v2.msg))
            else:  # infrastructure problem inside a test function
                import traceback

                traceback.print_exc()
                self.inconclusive.append(f"part {name}: {type(e).__name__}: {e}")
        self.parts.append((name, stats, examples))

    def label_count(self, label):
        return sum(p[1]["labels"].get(label, 0) for p in self.parts)

    def require_label(self, label, minimum):
        c = self.label_count(label)
        if c < minimum:
            self.inconclusive.append(f"label '{label}' seen {c} times, need >= {minimum}")

    def finish(self):
        for k in self.known:
            hits = self.known_hits.get(k["signature"], 0)
            if hits or k["signature"] in self.known_confirmed:
                print(f"KNOWN-FINDING: property={self.pid} {k['text']} [{k['id']}; search hits this run: {hits}]")
        evaluations = sum(p[1]["evaluations"] for p in self.parts)
        distinct = sum(len(p[1]["nontrivial"]) for p in self.parts)
        samples = []
        labels = {}
        parts = []
        for name, s, req in self.parts:
            for x in s["samples"]:
                samples.append({"part": "py:" + name, "case": x})
            for k, v in s["labels"].items():
                labels[f"py:{name}:{k}"] = v
            parts.append({"part": "py:" + name, "requested": req, "evaluations": s["evaluations"], "distinct_nontrivial": len(s["nontrivial"]), "exhaustive": False})
        path = f"{ROOT}/evidence/{self.pid}.json"
        if self.merge and os.path.exists(path):
            ev = json.load(open(path))
            cov = ev["coverage"]
            cov["evaluations"] += evaluations
            cov["distinct_nontrivial"] += distinct
            cov["samples"] = cov.get("samples", []) + samples
            cov["parts"] = cov.get("parts", []) + parts
            cov.setdefault("labels", {}).update(labels)
            cov["rule"] = cov.get("rule", "") + " | Python leg: " + self.rule
            cov["inconclusive"] = cov.get("inconclusive", []) + self.inconclusive
            ev["wall_s"] = ev.get("wall_s", 0) + (time.time() - self.start)
            ev["violations"] = ev.get("violations", 0) + len(self.violations)
        else:
            ev = {
                "property_id": self.pid,
                "tier": self.tier,
                "seed": self.seed,
                "level": "exploration",
                "coverage": {
                    "evaluations": evaluations,
                    "distinct_nontrivial": distinct,
                    "rule": self.rule,
                    "samples": samples,
                    "parts": parts,
                    "labels": labels,
                    "known_finding_hits": self.known_hits,
                    "inconclusive": self.inconclusive,
                },
                "assumptions": self.assumptions,
                "wall_s": time.time() - self.start,
                "violations": len(self.violations),
            }
        os.makedirs(ROOT + "/evidence", exist_ok=True)
        json.dump(ev, open(path, "w"), indent=1)
        print(f"{self.pid} (python): tier={self.tier} seed={self.seed} evaluations={evaluations} distinct_nontrivial={distinct} violations={len(self.violations)} wall={time.time() - self.start:.1f}s")
        if self.violations:
            return 1
        if self.inconclusive:
            for i in self.inconclusive:
                print("INCONCLUSIVE: " + i)
            return 2
        return 0


def _truncate(js, limit=160):
    if isinstance(js, str):
        return js if len(js) <= limit else js[:limit] + f"...(+{len(js) - limit} chars)"
    if isinstance(js, list):
        out = [_truncate(x, limit) for x in js[:60]]
        if len(js) > 60:
            out.append(f"...(+{len(js) - 60} items)")
        return out
    if isinstance(js, dict):
        return {k: _truncate(v, limit) for k, v in js.items()}
    return js


def replay_main(checks):
    """python py/run.py --replay FILE"""
    js = json.load(open(sys.argv[2]))
    pid = js["property"]
    mod = checks[pid]
    return mod.replay(js["part"], js["case"])
