"""C22 (Python leg) - the wheel's sha256_treehash equals the recursive definition on every CLVM object kind."""
import io

from hypothesis import strategies as st

from pbt import Check, Oracle, Violation, classic_bytes, count_pairs_atoms, node_lists, nodes_from_json, nodes_json

import clvm_rs.clvm_rs as native
from clvm_rs import Program
from clvm_rs.clvm_tree import CLVMTree
from clvm_rs.tree_hash import sha256_treehash

KINDS = ["plain", "plain_slots", "program", "program_to", "program_from_bytes", "program_parse", "lazy", "clvmtree", "clvmtree_nohash", "program_wrap_tree", "fresh"]
ORA = None


def ora():
    global ORA
    if ORA is None:
        ORA = Oracle()
    return ORA


class Plain:
    def __init__(self, atom, pair):
        self.atom = atom
        self.pair = pair


class Slots:
    """object that cannot take the _cached_sha256_treehash attribute"""

    __slots__ = ("atom", "pair")

    def __init__(self, atom, pair):
        self.atom = atom
        self.pair = pair


class Fresh:
    def __init__(self, nodes, i):
        self._nodes = nodes
        self._i = i
        n = nodes[i]
        self.atom = n[1] if n[0] == "a" else None

    @property
    def pair(self):
        n = self._nodes[self._i]
        if n[0] == "a":
            return None
        return (Fresh(self._nodes, n[1]), Fresh(self._nodes, n[2]))


def build(cls, nodes):
    objs = []
    for n in nodes:
        objs.append(cls(n[1], None) if n[0] == "a" else cls(None, (objs[n[1]], objs[n[2]])))
    return objs


def test(case):
    nodes, kind, sub = case
    blob = classic_bytes(nodes)
    r = ora().call(kind="serde", func="tree_hash", data=blob.hex())
    if r["kind"] != "Ok":
        raise RuntimeError(f"oracle tree_hash failed: {r}")
    expect = bytes.fromhex(r["value_hex"])
    pre = None
    if kind in ("plain", "plain_slots"):
        objs = build(Plain if kind == "plain" else Slots, nodes)
        obj = objs[-1]
        # hash a sub-tree first: its cached value is then re-used inside the parent's hash
        k = (sub * len(objs)) >> 16
        sub_blob = classic_bytes(nodes, k)
        pre = (objs[k], bytes.fromhex(ora().call(kind="serde", func="tree_hash", data=sub_blob.hex())["value_hex"]))
    elif kind == "program":
        objs = []
        for n in nodes:
            objs.append(Program.new_atom(n[1]) if n[0] == "a" else Program.new_pair(objs[n[1]], objs[n[2]]))
        obj = objs[-1]
        k = (sub * len(objs)) >> 16
        pre = (objs[k], bytes.fromhex(ora().call(kind="serde", func="tree_hash", data=classic_bytes(nodes, k).hex())["value_hex"]))
    elif kind == "program_to":
        obj = Program.to(build(Plain, nodes)[-1])
    elif kind == "program_from_bytes":
        obj = Program.from_bytes(blob)
    elif kind == "program_parse":
        obj = Program.parse(io.BytesIO(blob))
    elif kind == "lazy":
        obj = native.deser_legacy(blob)
    elif kind == "clvmtree":
        obj = CLVMTree.from_bytes(blob)
    elif kind == "clvmtree_nohash":
        obj = CLVMTree.from_bytes(blob, calculate_tree_hash=False)
    elif kind == "program_wrap_tree":
        obj = Program.wrap(CLVMTree.from_bytes(blob))
    else:
        obj = Fresh(nodes, len(nodes) - 1)
    if pre is not None:
        h = sha256_treehash(pre[0])
        if h != pre[1]:
            raise Violation(f"sha256_treehash({kind} sub-tree) = {h.hex()} expected {pre[1].hex()}")
    got = sha256_treehash(obj)
    if got != expect:
        raise Violation(f"sha256_treehash({kind}) = {got.hex()} but sha256(1||atom)/sha256(2||l||r) gives {expect.hex()} for tree {blob.hex()[:300]}")
    again = sha256_treehash(obj)
    if again != expect:
        raise Violation(f"second sha256_treehash({kind}) (cached) = {again.hex()} expected {expect.hex()}")
    if isinstance(obj, Program):
        if obj.tree_hash() != expect:
            raise Violation(f"Program.tree_hash() ({kind}) = {obj.tree_hash().hex()} expected {expect.hex()}")
        if obj.pair is not None:
            # children hashed after the parent
            for ch, idx in zip(obj.pair, (nodes[-1][1], nodes[-1][2])):
                e2 = bytes.fromhex(ora().call(kind="serde", func="tree_hash", data=classic_bytes(nodes, idx).hex())["value_hex"])
                if ch.tree_hash() != e2:
                    raise Violation(f"tree_hash of a child of a hashed Program ({kind}) is wrong")
    pairs, atoms = count_pairs_atoms(nodes)
    small = any(n[0] == "a" and len(n[1]) <= 1 for n in nodes)
    return (pairs >= 1 and (small or pairs > atoms)), ["kind:" + kind]


def to_json(c):
    return {"nodes": nodes_json(c[0]), "kind": c[1], "sub": c[2]}


def from_json(j):
    return (nodes_from_json(j["nodes"]), j["kind"], j.get("sub", 0))


def run(tier):
    c = Check("C22", tier, merge=True)
    c.rule = (
        "DAG node lists wrapped as plain objects (with and without room for the hash cache attribute), Program (new_atom/new_pair, Program.to, from_bytes, parse), "
        "LazyNode, CLVMTree with Rust-computed and without pre-computed hashes, Program(CLVMTree), objects building fresh children per access; a sub-tree is hashed "
        "first so cached values are re-used; sha256_treehash / Program.tree_hash == independent SHA-256 tree hash computed by the harness (own SHA-256). "
        "Non-trivial = >= 1 pair and (an atom of <= 1 byte or shared sub-trees)."
    )
    c.run_part("treehash", st.tuples(node_lists(), st.sampled_from(KINDS), st.integers(0, 65535)), test, c.n(3000, 40000), to_json, from_json)
    for k in KINDS:
        c.require_label("kind:" + k, 60)
    return c.finish()


def replay(part, case):
    try:
        nt, labels = test(from_json(case))
        print(f"REPLAY PASS property=C22 part={part} nontrivial={nt} labels={labels}")
        return 0
    except Violation as v:
        print(f"REPLAY FAIL property=C22 part={part}\n{v.msg}")
        return 1
